"""Plain pytest: replays every kept violation witness (replays/kept/*.json) against the current tree WITHOUT the
explorer - one execution per witness with the recorded choice list.  On the repaired tree every witness must no longer
show its recorded (clause, shape).  Run:  /venv/bin/python -m pytest -q -p no:cacheprovider /verif/replays/test_replays.py
"""
import glob
import importlib
import json
import os
import sys

import pytest

HERE = os.path.dirname(os.path.abspath(__file__))
sys.path.insert(0, os.environ.get("ONL_REPO", "/repo"))
sys.path.insert(0, os.path.dirname(HERE))

from mc.explore import Chooser, with_long, with_debug  # noqa: E402

WITNESSES = sorted(glob.glob(os.path.join(HERE, "kept", "*.json")))


@pytest.mark.parametrize("path", WITNESSES, ids=[os.path.basename(p) for p in WITNESSES])
def test_witness_no_longer_violates(path, capsys):
    rec = json.load(open(path))
    mod = importlib.import_module("harness.c%s" % rec["property"][1:])
    ch = Chooser(rec["choices"], rec.get("budget"))
    with capsys.disabled():
        pass
    res = with_debug(with_long(mod.execute))(ch, rec["cfg"])
    hits = [v for v in res.violations if v[0] == rec["clause"] and v[1] == rec["shape"]]
    assert not hits, "recorded violation is back: %r" % (hits[0],)
