"""C14 - WFQ and VirtualClock transmit in virtual-finish-stamp order (stamps recomputed from the
observed arrival/departure history by the statement's recurrences, in exact rationals)."""
from fractions import Fraction as Fr

from harness import sched as S
from mc import explore

PROPERTY = "C14"
CLAUSES = ["C14.noraise", "C14.once", "C14.time", "C14.fifo", "C14.min", "C14.ties", "C14.fair"]
RULE = ("every arrival workload of <= N packets per (scheduler, weight/vtick table, rate, flow-to-class map) plus "
        "single-step equal-stamp bursts over 4-6 classes and static backlogs; non-trivial = at some decision >= 2 packets "
        "with different reference stamps (or an exact tie) were definitely waiting; distinct = distinct "
        "(workload, departure order, instants)")
ASSUMPTIONS = [
    "reference stamps in exact rationals; when an arrival coincides with the departure that empties WFQ both readings "
    "('had emptied' / 'had not yet emptied') are admissible and a violation needs every admissible reading to fail",
    "arrival order on equal stamps is demanded only when both stamps are float-exact (dyadic history); other near-ties "
    "(relative difference <= 1e-9) are accepted in either order",
    "D/M visibility rule of DESIGN 2.4",
]
TOL = Fr(1, 10 ** 9)


def plan(tier, seed):
    quick = tier == "quick"
    n = 3 if quick else 4
    cfgs = []
    for tab in ([[0, 1], [1, 1]], [[0, 1], [1, 2]], [[0, 2], [1, 1]], [[0, 1], [1, 3]], [[0, 2], [1, 4]]):
        for rate in (8, 16):
            if quick and rate == 16 and tab[1][1] != 2:
                continue
            cfgs.append(dict(sched="WFQ", table=tab, rate=rate, flows=[0, 1], sizes=[1, 2], N=n, gaps="G5", order=0, L=50))
        cfgs.append(dict(sched="WFQ", table=tab, rate=8, flows=[0, 1], sizes=[1, 2], N=n + 1, gaps="G3", order=1))
        cfgs.append(dict(sched="WFQ", table=tab, rate=8, flows=[0, 1], sizes=[1, 2, 3], N=n + 2, gaps=["S"], order=0, static=True))
    cfgs.append(dict(sched="WFQ", table=[[0, 1], [1, 2]], rate=8, flows=[0, 1], sizes=[1, 2], N=n, gaps="G5", order=0, map="swap"))
    # class ids computed on every call; a time axis scaled by 2^-30; deeper static backlogs (heap shape matters from 6 items on)
    cfgs.append(dict(sched="WFQ", table=[[1000, 1], [1001, 2]], rate=8, flows=[0, 1], sizes=[1, 2], N=n, gaps="G3", order=0, map="big"))
    cfgs.append(dict(sched="VC", table=[[1000, 1], [1001, 2]], rate=8, flows=[0, 1], sizes=[1, 2], N=n, gaps="G3", order=0, map="big"))
    cfgs.append(dict(sched="WFQ", table=[[0, 1], [1, 2]], rate=8 * 2 ** 30, flows=[0, 1], sizes=[1, 2], N=n, gaps="G5", order=0, scale=2.0 ** -30, L=50))
    cfgs.append(dict(sched="VC", table=[[0, 2.0 ** -30], [1, 2.0 ** -29]], rate=8 * 2 ** 30, flows=[0, 1], sizes=[1, 2], N=n, gaps="G5", order=0, scale=2.0 ** -30, L=50))
    for kind, tab in (("WFQ", [[0, 3], [1, 2]]), ("VC", [[0, 2], [1, 3]])):
        cfgs.append(dict(sched=kind, table=tab, rate=8, flows=[0, 1], sizes=[1, 2], N=6 if quick else 7, gaps=["S"], order=0, static=True))
    cfgs.append(dict(sched="WFQ", table=[[0, 2]], rate=8, flows=[0, 1], sizes=[1, 2], N=n, gaps="G5", order=0, map="one"))
    cfgs.append(dict(sched="WFQ", table=[[0, 1], [1, 2], [2, 1]], rate=8, flows=[0, 1, 2], sizes=[1, 2], N=n, gaps="G3", order=0))
    cfgs.append(dict(sched="VC", table=[[0, 0], [1, 1]], rate=8, flows=[0, 1], sizes=[1], N=6 if quick else 7, gaps=["S", 1], order=0))
    for tab in ([[0, 1], [1, 1]], [[0, 1], [1, 2]], [[0, 2], [1, 1]], [[0, 0.5], [1, 2]]):
        cfgs.append(dict(sched="VC", table=tab, rate=8, flows=[0, 1], sizes=[1, 2], N=n, gaps="G5", order=0, L=50))
        cfgs.append(dict(sched="VC", table=tab, rate=16, flows=[0, 1], sizes=[1, 2], N=n + 1, gaps="G3", order=1))
    cfgs.append(dict(sched="VC", table=[[0, 1], [1, 2]], rate=8, flows=[0, 1], sizes=[1, 2], N=n, gaps="G5", order=0, map="swap"))
    cfgs.append(dict(sched="VC", table=[[0, 2]], rate=8, flows=[0, 1], sizes=[1, 2], N=n, gaps="G5", order=0, map="one"))
    # equal-stamp bursts over many classes (one driver step, all stamps equal -> pure arrival order)
    for kind in ("WFQ", "VC"):
        for ncls in (4, 5, 6):
            if quick and ncls == 5:
                continue
            cfgs.append(dict(sched=kind, table=[[c, 1] for c in range(ncls)], rate=8, flows=list(range(ncls)), sizes=[1],
                             N=ncls if ncls < 6 or not quick else 5, gaps=["S"], order=0, static=True))
    # weights that sum to less than 1 (link shares); class ids that are not 0..n-1
    cfgs.append(dict(sched="WFQ", table=[[0, 0.5], [1, 0.25]], rate=8, flows=[0, 1], sizes=[1, 2], N=n, gaps="G5", order=0, L=50))
    cfgs.append(dict(sched="WFQ", table=[[0, 0.5], [1, 0.25], [2, 0.125]], rate=8, flows=[0, 1, 2], sizes=[1, 2], N=n, gaps="G3", order=0))
    cfgs.append(dict(sched="WFQ", table=[[1, 1], [2, 2]], rate=8, flows=[1, 2], sizes=[1, 2], N=n, gaps="G5", order=0, L=50))
    cfgs.append(dict(sched="VC", table=[[1, 1], [2, 2]], rate=8, flows=[1, 2], sizes=[1, 2], N=n, gaps="G5", order=0, L=50))
    # a second live scheduler of the same kind with other weights / vticks in the same program
    cfgs.append(dict(sched="WFQ", table=[[0, 1], [1, 2]], rate=8, flows=[0, 1], sizes=[1, 2], N=n, gaps="G3", order=0, twin=1))
    cfgs.append(dict(sched="VC", table=[[0, 1], [1, 2]], rate=8, flows=[0, 1], sizes=[1, 2], N=n, gaps="G3", order=0, twin=1))
    # every configuration once more with long fixed workloads (state that only breaks after hundreds of packets)
    nlong = explore.add_long(cfgs, 300 if quick else 800)
    ndebug = explore.add_debug_variants(cfgs)      # the same with every element constructed with debug=True
    return {"cfgs": cfgs, "budget": None,
            "bound": ("%d long fixed workloads (periodic arrival patterns); %d configurations repeated with debug=True; " % (nlong, ndebug)) + ("N<=%d full menu, N<=%d reduced, static backlogs N<=%d with 3 sizes; weights (1,1),(1,2),(2,1),(1,3),(2,4); "
                     "vticks (1,1),(1,2),(2,1),(.5,2); equal-stamp bursts over 4-6 classes" % (n, n + 1, n + 2))}


def dyadic(x):
    d = x.denominator
    return d & (d - 1) == 0


def wfq_stamps(net, cfg):
    """All admissible stamp assignments: list of dict arrival-index -> (stamp, exact?)."""
    w = {int(k): Fr(v) for k, v in cfg["table"]}
    rate = cfg["rate"]
    ev = sorted([("A", a.seq, a) for a in net.arrs] + [("D", d.seq, d) for d in net.deps], key=lambda e: e[1])

    def fresh():
        return dict(V=Fr(0), Vex=True, last=Fr(0), cnt={}, F={c: Fr(0) for c in w}, Fex={c: True for c in w},
                    st={}, pend=None)

    def adv(s, t):
        if s["cnt"]:
            inc = (t - s["last"]) / sum(w[c] for c in s["cnt"])
            if inc:
                s["V"] += inc
                s["Vex"] = s["Vex"] and dyadic(inc) and dyadic(s["V"])
        s["last"] = t

    def clone(s):
        return dict(V=s["V"], Vex=s["Vex"], last=s["last"], cnt=dict(s["cnt"]), F=dict(s["F"]), Fex=dict(s["Fex"]),
                    st=dict(s["st"]), pend=s["pend"])
    states = [fresh()]
    for kind, _, x in ev:
        new = []
        for s in states:
            if kind == "A":
                t = Fr(x.t)
                c = S.class_of(cfg, x.flow)
                forks = [s]
                if s["pend"] is not None and s["pend"][0] == t:
                    alt = clone(s)
                    _, V, Vex, F, Fex = s["pend"]
                    alt["V"], alt["Vex"], alt["F"], alt["Fex"] = V, Vex, dict(F), dict(Fex)
                    alt["noreset"] = True
                    forks.append(alt)
                for f in forks:
                    f["pend"] = None
                    if not f["cnt"] and not f.pop("noreset", False):
                        f["V"] = Fr(0); f["Vex"] = True
                        f["F"] = {k: Fr(0) for k in w}; f["Fex"] = {k: True for k in w}
                        f["last"] = t
                    else:
                        adv(f, t)
                    inc = Fr(8 * x.size) / (rate * w[c])
                    if f["F"][c] >= f["V"]:
                        base, bex = f["F"][c], f["Fex"][c]
                        if f["F"][c] == f["V"]:
                            bex = bex and f["Vex"]
                    else:
                        base, bex = f["V"], f["Vex"]
                    f["F"][c] = base + inc
                    f["Fex"][c] = bex and dyadic(inc) and dyadic(f["F"][c])
                    f["st"][x.i] = (f["F"][c], f["Fex"][c])
                    f["cnt"][c] = f["cnt"].get(c, 0) + 1
                    new.append(f)
            else:
                if x.arr is None:
                    new.append(s)
                    continue
                t = Fr(x.t)
                c = S.class_of(cfg, x.arr.flow)
                adv(s, t)
                s["cnt"][c] -= 1
                if s["cnt"][c] == 0:
                    del s["cnt"][c]
                if not s["cnt"]:
                    s["pend"] = (t, s["V"], s["Vex"], dict(s["F"]), dict(s["Fex"]))
                    s["V"] = Fr(0); s["Vex"] = True
                    s["F"] = {k: Fr(0) for k in w}; s["Fex"] = {k: True for k in w}
                new.append(s)
        states = new
        if len(states) > 64:
            states = states[:64]
    return [s["st"] for s in states]


def vc_stamps(net, cfg):
    vt = {int(k): Fr(v) for k, v in cfg["table"]}
    aux = {c: Fr(0) for c in vt}
    st = {}
    for a in net.arrs:
        c = S.class_of(cfg, a.flow)
        aux[c] = max(Fr(a.t), aux[c]) + vt[c]
        st[a.i] = (aux[c], dyadic(aux[c]))
    return [st]


def execute(ch, cfg):
    run = S.SchedRun(ch, cfg, watch_counters=False)
    res = S.new_result(run)
    net = run.net
    kind = cfg["sched"]
    if not S.check_common(run, res, "C14"):
        return res
    forks = wfq_stamps(net, cfg) if kind == "WFQ" else vc_stamps(net, cfg)
    decisions = [net.decision_sets(k) for k in range(len(net.deps))]
    why = None
    for st in forks:
        bad = None
        nt = False
        for k, d in enumerate(net.deps):
            busy, D, M = decisions[k]
            me = d.arr
            if me not in D and me not in M:
                bad = ("C14.min", "%s:served-packet-not-waiting" % kind, "departure %d" % k)
                break
            sm, exm = st[me.i]
            for a in D:
                if a is me:
                    continue
                sa, exa = st[a.i]
                if sa != sm or (exa and exm):
                    nt = True
                lim = TOL * max(1, abs(sm))
                if sa < sm - lim:
                    bad = ("C14.min", "%s:larger-stamp-served-first" % kind,
                           "departure %d: served packet %d (stamp %s) while packet %d (stamp %s) waited" % (k, me.i, sm, a.i, sa))
                    break
                if sa == sm and exa and exm and a.seq < me.seq:
                    bad = ("C14.ties", "%s:equal-stamps-not-in-arrival-order" % kind,
                           "departure %d: served packet %d before earlier packet %d, both stamp %s" % (k, me.i, a.i, sm))
                    break
            if bad:
                break
        if bad is None:
            why = None
            res.nontrivial = nt
            break
        if why is None or bad[0] == "C14.min":
            why = bad
    res.ev("C14.min", len(net.deps))
    res.ev("C14.ties", len(net.deps))
    if why:
        res.bad(*why)
        return res
    if kind == "WFQ" and cfg.get("static"):
        check_fair(net, cfg, res)
    return res


def check_fair(net, cfg, res):
    w = {int(k): Fr(v) for k, v in cfg["table"]}
    if not net.arrs:
        return
    lmax = max(a.size for a in net.arrs)
    served = {c: 0 for c in w}
    left = {c: 0 for c in w}
    for a in net.arrs:
        left[S.class_of(cfg, a.flow)] += 1
    for d in net.deps:
        c = S.class_of(cfg, d.arr.flow)
        served[c] += d.arr.size
        left[c] -= 1
        bl = [x for x in w if left[x] > 0]
        for i in bl:
            for j in bl:
                if i < j:
                    res.ev("C14.fair")
                    if abs(served[i] / w[i] - served[j] / w[j]) > lmax / w[i] + lmax / w[j]:
                        res.bad("C14.fair", "WFQ:normalised-service-gap-exceeds-one-max-packet-each",
                                "classes %d,%d served %s bytes, weights %s/%s, Lmax %d" % (i, j, dict(served), w[i], w[j], lmax))
                        return
