"""Reference model for Resource / PriorityResource / PreemptiveResource as a SET of admissible
states.  The statement fixes grant order and the preemption rule but not when, inside one
simulated instant, a freed slot is handed to the next waiter; therefore after a release the
hand-over is 'pending' and before every later operation of that instant the reference forks on
'already happened / not yet'; when the clock is about to advance it must have happened."""


def key(e):
    # entry = (pid, priority, time, preempt, seq)
    return (e[1], e[2], not e[3])


class ResRef:
    def __init__(self, kind, cap):
        self.kind = kind          # 'plain' | 'prio' | 'preemptive'
        self.cap = cap
        self.seq = 0
        # state = (users, queue, handover_pending, grants, preemptions)
        self.states = {((), (), False, (), ())}

    def scan(self, st, now):
        users, queue, pend, grants, pre = st
        out = set()
        work = [(users, queue, grants, pre)]
        while work:
            users, queue, grants, pre = work.pop()
            if not queue:
                out.add((users, queue, False, grants, pre))
                continue
            h = queue[0]
            branched = False
            if self.kind == "preemptive" and len(users) >= self.cap and h[3]:
                wk = max(key(u) for u in users)
                if wk > key(h):
                    # rank order is (priority, request time, preempting-first, arrival): among equal keys the latest arrival is worst
                    last = max(u[4] for u in users if key(u) == wk)
                    for v in [u for u in users if key(u) == wk and u[4] == last]:
                        u2 = tuple(u for u in users if u != v)
                        work.append((u2 + (h,), queue[1:], grants + ((h[0], now),), pre + ((v[0], h[0], now),)))
                    branched = True
            if branched:
                continue
            if len(users) < self.cap:
                work.append((users + (h,), queue[1:], grants + ((h[0], now),), pre))
            else:
                out.add((users, queue, False, grants, pre))
        return out

    def _variants(self, st, now):
        return {st} | (self.scan(st, now) if st[2] else set())

    def request(self, pid, prio, preempt, now):
        self.seq += 1
        e = (pid, prio if self.kind != "plain" else 0, now if self.kind != "plain" else 0,
             preempt if self.kind != "plain" else False, self.seq)
        ns = set()
        for st in self.states:
            for (users, queue, pend, grants, pre) in self._variants(st, now):
                q = queue + (e,)
                if self.kind != "plain":
                    q = tuple(sorted(q, key=key))
                ns |= self.scan((users, q, False, grants, pre), now)
        self.states = ns

    def release(self, pid, now):
        ns = set()
        for st in self.states:
            for (users, queue, pend, grants, pre) in self._variants(st, now):
                ns.add((tuple(x for x in users if x[0] != pid), queue, True, grants, pre))
        self.states = ns

    def cancel(self, pid, now):
        ns = set()
        for st in self.states:
            for (users, queue, pend, grants, pre) in self._variants(st, now):
                nxt = (users, tuple(x for x in queue if x[0] != pid), pend, grants, pre)
                ns.add(nxt)
                # the statement does not say whether the new head of the queue is looked at right away (it may then
                # preempt) or only at the next release: both are admissible, for good
                ns |= self.scan(nxt, now)
        self.states = ns

    def exit(self, pid, now):
        ns = set()
        for st in self.states:
            for (users, queue, pend, grants, pre) in self._variants(st, now):
                ns.add((tuple(x for x in users if x[0] != pid), tuple(x for x in queue if x[0] != pid), True, grants, pre))
        self.states = ns

    def noop(self, now):
        """an operation that must change nothing (double release, release of a non-user)"""
        ns = set()
        for st in self.states:
            ns |= self._variants(st, now)
        self.states = ns

    def settle(self, now):
        """the clock is about to advance: every pending hand-over has happened"""
        ns = set()
        for st in self.states:
            ns |= self.scan(st, now) if st[2] else {st}
        self.states = ns

    def matches(self, users, queue, grants, preempts):
        """users: sorted pids; queue: pids in order; grants: ((pid, t),...) in order; preempts: ((victim, by, t),...)"""
        ok = []
        for st in self.states:
            if sorted(u[0] for u in st[0]) != users:
                continue
            if [q[0] for q in st[1]] != queue:
                continue
            if tuple(st[3]) != tuple(grants):
                continue
            if tuple(st[4]) != tuple(preempts):
                continue
            ok.append(st)
        return ok
