"""'Most general client' for the simulation kernel: process programs are generated lazily (the
next instruction of a process is a choice made when the process is about to execute it), every
trigger / registration / invocation / resumption is logged, and reference oracles evaluate the
log.  Used by C01, C02, C04 (and as program generator by C03, C20)."""
from onl.sim import Environment, Interrupt, StopProcess
from onl.sim.core import EmptySchedule

INF = float("inf")
URG, NOR = 0, 1


class Err(Exception):
    """application exception; equal when the arguments are equal (the kernel hands every waiter its own copy, and two
    runs of one program create two objects)"""

    def __eq__(self, o):
        return type(o) is type(self) and o.args == self.args

    def __ne__(self, o):
        return not self.__eq__(o)

    def __hash__(self):
        return hash((type(self).__name__, self.args))


class Abort(BaseException):
    """an application exception that is not an Exception subclass (like KeyboardInterrupt-style aborts)"""


class AnyEq:
    """a payload whose == is liberal towards everything that is not another payload (like unittest.mock.ANY, or an array
    type with element-wise ==): the kernel must never decide anything by comparing a payload"""

    def __init__(self, tag):
        self.tag = tag

    def __eq__(self, o):
        return o.tag == self.tag if isinstance(o, AnyEq) else True

    def __ne__(self, o):
        return o.tag != self.tag if isinstance(o, AnyEq) else False

    def __hash__(self):
        return hash(("AnyEq", self.tag))

    def __bool__(self):
        return True

    def __repr__(self):
        return "AnyEq(%r)" % (self.tag,)


class Duck:
    """a process body that is not a native generator but an object with the generator protocol (send / throw / close),
    which the kernel explicitly accepts"""

    __name__ = "duck_body"          # what every generator type (CPython, Cython) has; messages and reprs use it

    def __init__(self, gen):
        self._g = gen

    def send(self, v):
        return self._g.send(v)

    def throw(self, *a):
        return self._g.throw(*a)

    def close(self):
        return self._g.close()

    def __next__(self):
        return next(self._g)

    def __iter__(self):
        return self


class K:
    """One execution of one lazily generated program."""

    def __init__(self, ch, ops, depth, nproc=2, maxproc=4, env=None, nevents=2, stop_at=None, reaction=True, probe_procs=True,
                 falsy_causes=False, liberal_values=False, probe_timeouts=True, duck=False, translate=False):
        self.duck = duck
        self.translate = translate      # True: a failure a process does not handle is re-raised as another exception `from` it
        self.chained = {}         # event index -> index of the event whose outcome it takes over (Event.trigger as a callback)
        self.probe_timeouts = probe_timeouts      # False: timeouts carry no callback of ours (an abandoned one has no callbacks at all)
        self.val = (lambda x: AnyEq(x)) if liberal_values else (lambda x: x)
        self.ch = ch
        self.ops = ops
        self.depth = depth
        self.maxproc = maxproc
        self.env = env or Environment()
        self.reaction = reaction
        self.log = []            # (idx, step, now, kind, data...)
        self.stepno = 0
        self.used = 0
        self.nid = 0
        self.procs = []
        self.alive = set()       # pids whose body has not returned
        self.started = set()
        self.target = {}         # pid -> label currently awaited
        self.reg = {}            # label -> registration list (in order)
        self.outcome = {}        # label -> (ok, payload)
        self.trig = []           # (label, due, class, trigger seq, victim)
        self.tseq = 0
        self.processed = {}      # label -> (step, now)
        self.crashed = None
        self.bad = []            # violations detected online: (generic clause, shape, msg)
        self.events = []
        self.stop_at = stop_at
        self.nfalsy = 0
        self.probe_procs = probe_procs      # False: no callback of ours on process events (they start with an empty waiter list)
        self.falsy_causes = falsy_causes
        for e in range(nevents):
            ev = self.env.event()
            lab = ("ev", e)
            self.events.append(ev)
            self.reg[lab] = ["probe"]
            ev.callbacks.append(self._probe(lab))
        for _ in range(nproc):
            self.spawn()

    # ---- logging --------------------------------------------------------------------------
    def L(self, kind, *data):
        self.log.append((len(self.log), self.stepno, self.env.now, kind) + data)

    def trigger(self, label, due, cls, victim=None):
        self.tseq += 1
        self.trig.append((label, due, cls, self.tseq, victim))
        self.L("trigger", label, due, cls, self.tseq, victim)

    def _probe(self, label):
        def cb(event):
            self.processed[label] = (self.stepno, self.env.now)
            self.L("probe", label, tuple(self.reg.get(label, ())))
        return cb

    def spawn(self):
        pid = len(self.procs)
        self.procs.append(None)
        self.alive.add(pid)
        p = self.env.process(Duck(self.body(pid)) if self.duck and pid % 2 == 0 else self.body(pid))
        self.procs[pid] = p
        lab = ("p", pid)
        if self.probe_procs:
            self.reg[lab] = ["probe"]
            p.callbacks.append(self._probe(lab))
        else:
            self.reg[lab] = []
        self.trigger(("start", pid), self.env.now, URG)
        return p

    def new_timeout(self, d):
        self.nid += 1
        lab = ("to", self.nid)
        v = self.val(("tv", self.nid))
        self.outcome[lab] = (True, v)
        t = self.env.timeout(d, value=v)
        self.trigger(lab, self.env.now + d, NOR)
        if self.probe_timeouts:
            self.reg[lab] = ["probe"]
            t.callbacks.append(self._probe(lab))
        else:
            self.reg[lab] = []
        return t, lab

    # ---- the lazily generated process body ---------------------------------------------------
    def next_op(self, pid):
        if self.used >= self.depth:
            return "ret"
        self.used += 1
        ops = self.ops
        c = self.ch.choose(len(ops), lambda c, pid=pid: "p%d: %s" % (pid, ops[c] if not isinstance(ops[c], tuple) else " ".join(map(str, ops[c]))), free=True)
        return ops[c]

    def finish(self, pid, ok, payload):
        self.alive.discard(pid)
        self.target[pid] = None
        self.outcome[("p", pid)] = (ok, payload)
        self.L("end", pid, ok, payload)
        self.trigger(("p", pid), self.env.now, NOR)

    def wait(self, pid, evt, label, catching):
        """sub-generator: returns outcome tuple; re-raises Err when not catching"""
        while True:
            already = label in self.processed
            if not already:
                self.reg[label].append(("proc", pid))
            self.target[pid] = label
            self.L("yield", pid, label, already)
            try:
                v = yield evt
                out = ("ok", v)
            except (Err, Abort, StopProcess, IndexError) as e:
                out = ("exc", e.args)
                exc = e
            except Interrupt as i:
                out = ("intr", i.cause)
            self.target[pid] = None
            self.L("resume", pid, label, out)
            if out[0] == "intr":
                r = self.reg.get(label)
                if r is not None and ("proc", pid) in r and label not in self.processed:
                    r.remove(("proc", pid))
                if self.reaction and self.used < self.depth:
                    self.used += 1
                    c = self.ch.choose(2, lambda c, pid=pid: "p%d after interrupt: %s" % (pid, "go on" if c == 0 else "wait for the same target again"), free=True)
                    if c == 1:
                        continue
                return out
            if out[0] == "exc" and not catching:
                if self.translate:
                    # the process ends with an exception of its own (other type, other arguments) chained to the one it
                    # received: its joiners and run() must see this one, not the end of the cause chain
                    new = (IndexError if isinstance(exc, Err) else Err)(("tr", pid))
                    self.finish(pid, False, new.args)
                    raise new from exc
                self.finish(pid, False, out[1])
                raise exc
            return out

    def body(self, pid):
        self.started.add(pid)
        self.L("start", pid)
        env = self.env
        while True:
            op = self.next_op(pid)
            kind = op if not isinstance(op, tuple) else op[0]
            if kind == "ret":
                v = self.val(("rv", pid))
                self.finish(pid, True, v)
                return v
            if kind == "raise":
                self.finish(pid, False, (("xv", pid),))
                raise Err(("xv", pid))
            if kind == "raiseB":
                self.finish(pid, False, (("bv", pid),))
                raise Abort(("bv", pid))
            if kind == "raiseIE":
                # an ordinary bug in a process body (jobs[n] past the end): a failure like any other
                self.finish(pid, False, (("iv", pid),))
                raise IndexError(("iv", pid))
            if kind == "raiseSP":
                # the exported StopProcess class is an ordinary exception for the kernel: the process fails with it
                self.finish(pid, False, (("sp", pid),))
                raise StopProcess(("sp", pid))
            if kind == "ret0":
                # a falsy return value must reach the joiners as it is
                val = (0, "", False)[pid % 3]
                self.finish(pid, True, val)
                return val
            if kind == "T":
                t, lab = self.new_timeout(op[1])
                yield from self.wait(pid, t, lab, True)
            elif kind == "Tneg":
                before = env.peek()
                try:
                    env.timeout(-1)
                    self.bad.append(("neg", "negative-delay-accepted", "timeout(-1) did not raise"))
                except ValueError:
                    pass
                except BaseException as e:  # noqa
                    self.bad.append(("neg", "negative-delay-raises-%s" % type(e).__name__, ""))
                if env.peek() != before:
                    self.bad.append(("neg", "refused-timeout-left-an-occurrence-scheduled", "peek %r -> %r" % (before, env.peek())))
            elif kind == "W":
                e = op[1]
                yield from self.wait(pid, self.events[e], ("ev", e), op[2])
            elif kind == "CH":
                # chain reaction: event dst takes over the outcome of event src (dst.trigger registered as a callback of src)
                src, dst = op[1], op[2]
                evs, evd = self.events[src], self.events[dst]
                if evs.callbacks is not None and dst not in self.chained and ("ev", dst) not in self.outcome:
                    self.chained[dst] = src
                    self.nid += 1
                    me = ("cb", self.nid)
                    self.reg[("ev", src)].append(me)

                    def chain(event, me=me, src=src, dst=dst, evd=evd):
                        self.L("cbk", ("ev", src), me)
                        self.outcome[("ev", dst)] = self.outcome[("ev", src)]
                        self.trigger(("ev", dst), self.env.now, NOR)
                        evd.trigger(event)
                    evs.callbacks.append(chain)
            elif kind in ("S", "F", "SX") and op[1] in self.chained:
                pass          # a chained event is triggered by its source only
            elif kind in ("S", "F", "SX"):
                e = op[1]
                lab = ("ev", e)
                ev = self.events[e]
                self.nid += 1
                try:
                    if kind == "S":
                        v = self.val(("sv", e, self.nid))
                        ev.succeed(v)
                        new = (True, v)
                    elif kind == "SX":
                        # an exception OBJECT as the value of a successful event (a result being handed on, not raised)
                        v = Err(("sx", e, self.nid))
                        ev.succeed(v)
                        new = (True, v)
                    else:
                        ev.fail(Err(("fv", e, self.nid)))
                        new = (False, (("fv", e, self.nid),))
                    if lab in self.outcome:
                        self.bad.append(("retrigger", "second-trigger-accepted", "event %d" % e))
                    self.outcome[lab] = new
                    self.trigger(lab, env.now, NOR)
                except RuntimeError:
                    if lab not in self.outcome:
                        self.bad.append(("retrigger", "first-trigger-refused", "event %d" % e))
            elif kind == "J":
                o = (pid + 1) % len(self.procs)
                if o != pid:
                    yield from self.wait(pid, self.procs[o], ("p", o), op[1])
            elif kind == "CB":
                # register a plain callback on a shared event (if not processed yet)
                e = op[1]
                lab = ("ev", e)
                ev = self.events[e]
                if ev.callbacks is not None:
                    self.nid += 1
                    me = ("cb", self.nid)
                    self.reg[lab].append(me)
                    ev.callbacks.append(lambda event, me=me, lab=lab: self.L("cbk", lab, me))
            elif kind == "CBI":
                # a plain callback on a shared event that interrupts the peer (if it is still alive when the event is
                # processed): an interrupt issued by no process at all
                e = op[1]
                lab = ("ev", e)
                ev = self.events[e]
                if ev.callbacks is not None:
                    self.nid += 1
                    me = ("cb", self.nid)
                    self.reg[lab].append(me)
                    o = (pid + 1) % len(self.procs)

                    def cbi(event, me=me, lab=lab, o=o):
                        self.L("cbk", lab, me)
                        if o in self.alive:
                            self.interrupt(None, o)
                    ev.callbacks.append(cbi)
            elif kind == "I":
                o = (pid + 1) % len(self.procs)
                self.interrupt(pid, o)
            elif kind == "Iself":
                self.interrupt(pid, pid)
            elif kind == "Sp":
                if len(self.procs) < self.maxproc:
                    self.spawn()
            else:
                raise ValueError(op)

    def interrupt(self, pid, o):
        self.nid += 1
        cause = ("intr", self.nid)
        if self.falsy_causes and self.nfalsy < 3:
            cause = (0, "", ())[self.nfalsy]         # legal causes that happen to be falsy (each used once, so still unique)
            self.nfalsy += 1
        legal = o != pid and o in self.alive
        try:
            self.procs[o].interrupt(cause)
            if not legal:
                self.bad.append(("refuse", "interrupt-of-%s-accepted" % ("self" if o == pid else "finished-process"), "p%s -> p%d" % (pid, o)))
            self.L("issue", pid, o, cause)
            self.trigger(cause, self.env.now, URG, victim=o)
        except RuntimeError:
            if legal:
                self.bad.append(("refuse", "interrupt-of-live-process-refused%s" % ("" if pid is not None else "-when-issued-by-a-callback"), "p%s -> p%d (started: %s)" % (pid, o, o in self.started)))
            self.L("refused", pid, o)

    # ---- driving ---------------------------------------------------------------------------
    def run(self, max_steps=10000):
        env = self.env
        try:
            if self.stop_at is not None:
                stops = self.stop_at if isinstance(self.stop_at, (list, tuple)) else [self.stop_at]
                for i, t in enumerate(stops):
                    self.trigger(("stop", i), t, URG)
                    env.run(until=t)
                    self.L("stopped", i)
            n = 0
            while True:
                self.stepno += 1
                try:
                    env.step()       # (not guarded by peek(): an occurrence scheduled for t = inf is still an occurrence)
                except EmptySchedule:
                    break
                n += 1
                if n > max_steps:
                    self.bad.append(("noraise", "livelock", "more than %d steps" % max_steps))
                    break
        except BaseException as e:  # noqa
            self.crashed = (self.env.now, type(e).__name__, getattr(e, "args", ()), e)
            self.L("crash", type(e).__name__, e.args if isinstance(e, (Err, Abort, Interrupt, StopProcess, IndexError)) else ())
        return self

    def digest(self):
        return tuple(x[2:] for x in self.log)


# =========================================================================================
# reference oracles over the log
# =========================================================================================
def check_agenda(k):
    """C01: every observed occurrence is the minimum of the pending set (due, class, trigger seq)."""
    out = []
    pending = {}
    victim = {}
    dead = set()
    last_now = None
    nontrivial = False
    for ent in k.log:
        now, kind = ent[2], ent[3]
        if last_now is not None and now < last_now:
            out.append(("mono", "clock-went-backwards", "%r after %r" % (now, last_now)))
            return out, nontrivial
        last_now = now
        obs = None
        if kind == "trigger":
            label, due, cls, seq, v = ent[4:9]
            pending[label] = (due, cls, seq)
            if v is not None:
                victim[label] = v
            continue
        if kind == "end":
            dead.add(ent[4])
            continue
        if kind == "start":
            obs = ("start", ent[4])
        elif kind == "probe":
            obs = ent[4]
        elif kind == "resume" and ent[6][0] == "intr":
            obs = ent[6][1]
        elif kind == "stopped":
            obs = ("stop", ent[4])
        if obs is None:
            continue
        while True:
            if not pending:
                out.append(("order", "occurrence-that-was-never-triggered", "%r" % (obs,)))
                return out, nontrivial
            m = min(pending, key=lambda l: pending[l])
            if m == obs:
                due = pending[m][0]
                same = [l for l in pending if pending[l][0] == due and l != m and not (l[0] == 'start' and m[0] == 'start')]
                if same:
                    nontrivial = True
                if due != now:
                    out.append(("due", "%s-took-effect-%s" % (kindname(m), "early" if now < due else "late"), "%r due %r observed at %r" % (m, due, now)))
                    return out, nontrivial
                del pending[m]
                break
            if m[0] == "intr" and victim.get(m) in dead:
                del pending[m]
                continue
            exp, got = pending[m], pending.get(obs)
            if got is None:
                out.append(("order", "occurrence-observed-twice-or-untriggered", "%r" % (obs,)))
            elif got[0] != exp[0]:
                out.append(("due", "%s-took-effect-before-an-earlier-due-%s" % (kindname(obs), kindname(m)), "%r (due %r) before %r (due %r)" % (obs, got[0], m, exp[0])))
            elif got[1] != exp[1]:
                out.append(("order", "%s-before-urgent-%s" % (kindname(obs), kindname(m)), "at t=%r: %r observed while %r pending" % (now, obs, m)))
            else:
                out.append(("order", "%s-overtakes-earlier-triggered-%s" % (kindname(obs), kindname(m)), "at t=%r: %r (trigger #%d) observed while %r (trigger #%d) pending" % (now, obs, got[2], m, exp[2])))
            return out, nontrivial
    if k.crashed is None:
        left = [l for l in pending if not (l[0] == "intr" and victim.get(l) in dead)]
        if left:
            out.append(("due", "%s-never-took-effect" % kindname(left[0]), "%r" % (left[:3],)))
    return out, nontrivial


def kindname(label):
    return {"start": "process-start", "to": "timeout", "ev": "event", "p": "process-end", "intr": "interrupt", "stop": "numeric-stop"}.get(label[0], str(label[0]))


def check_delivery(k):
    """C02: exactly-once invocation in registration order, right value/exception, already-processed events,
    termination outcome, crash prediction."""
    out = []
    nontrivial = False
    log = k.log
    # group invocations by event label
    inv = {}
    expect_crash = None
    cands = []        # unprobed failing processes nobody joins: their failure must crash the run when it is processed (moment unobserved)
    for ent in log:
        kind = ent[3]
        if kind == "end" and not k.probe_procs and ent[5] is False and expect_crash is None:
            # unprobed process that failed: handled iff somebody joins it before its termination is processed - not observable
            # without a probe, so only the case 'nobody ever joins it' is judged
            pid = ent[4]
            if not any(e[3] == "yield" and e[5] == ("p", pid) for e in log):
                cands.append((ent[2], ent[6], ("p", pid)))
        if kind == "probe":
            label, reg = ent[4], ent[5]
            inv[label] = {"step": ent[1], "now": ent[2], "reg": list(reg), "got": ["probe"]}
            ok, pay = k.outcome.get(label, (None, None))
            if len(reg) >= 3 or ok is False:
                nontrivial = True
            if ok is False and not any(r[0] == "proc" for r in reg if r != "probe") and expect_crash is None:
                expect_crash = (ent[2], pay, label)
        elif kind == "cbk":
            label, me = ent[4], ent[5]
            rec = inv.get(label)
            if rec is None or rec["step"] != ent[1]:
                out.append(("once", "callback-invoked-outside-the-event's-processing", "%r %r" % (label, me)))
                return out, nontrivial
            rec["got"].append(me)
        elif kind == "resume":
            pid, label, outc = ent[4], ent[5], ent[6]
            if outc[0] == "intr":
                continue
            ok, pay = k.outcome.get(label, (None, None))
            # value
            if ok is None:
                out.append(("value", "resumed-by-an-untriggered-event", "p%d on %r got %r" % (pid, label, outc)))
                return out, nontrivial
            if outc[0] == "ok" and (ok is not True or outc[1] != pay):
                out.append(("value" if label[0] != "p" else "term", "waiter-received-a-wrong-value", "p%d waiting on %r got %r, event outcome %r" % (pid, label, outc, (ok, pay))))
                return out, nontrivial
            if outc[0] == "exc" and (ok is not False or outc[1] != pay):
                out.append(("value" if label[0] != "p" else "term", "waiter-received-a-wrong-exception", "p%d waiting on %r got %r, event outcome %r" % (pid, label, outc, (ok, pay))))
                return out, nontrivial
            # find the matching yield
            y = None
            for e2 in reversed(log[:ent[0]]):
                if e2[3] == "yield" and e2[4] == pid:
                    y = e2
                    break
            if y is None or y[5] != label:
                out.append(("once", "resume-without-yield", "p%d %r" % (pid, label)))
                return out, nontrivial
            if y[6]:
                # the event had been processed before the yield: must continue in the same kernel step
                if ent[1] != y[1]:
                    out.append(("processed", "already-processed-event-did-not-resume-at-once", "p%d on %r yielded in step %d resumed in step %d" % (pid, label, y[1], ent[1])))
                    return out, nontrivial
            elif label[0] == "p" and not k.probe_procs:
                pass        # no probe on process events in this mode: only value, termination and liveness are judged
            elif label[0] == "to" and not k.probe_timeouts:
                # no probe on timeouts in this mode: the waiter must be resumed at the timeout's own instant
                due = [t[1] for t in k.trig if t[0] == label]
                if due and ent[2] != due[0]:
                    out.append(("once", "timeout-waiter-resumed-at-another-instant", "p%d on %r due %r resumed at %r" % (pid, label, due[0], ent[2])))
                    return out, nontrivial
            else:
                rec = inv.get(label)
                if rec is None or rec["step"] != ent[1]:
                    out.append(("once", "process-resumed-outside-the-event's-processing", "p%d on %r (is it still attached to an abandoned target?)" % (pid, label)))
                    return out, nontrivial
                rec["got"].append(("proc", pid))
    for label, rec in inv.items():
        if k.crashed is not None and rec["step"] == k.stepno:
            continue        # the crashing step may have been cut short
        if rec["got"] != rec["reg"]:
            missing = [r for r in rec["reg"] if r not in rec["got"]]
            extra = [r for r in rec["got"] if rec["got"].count(r) > 1]
            shape = "waiter-never-invoked" if missing else ("waiter-invoked-twice" if extra else "waiters-invoked-out-of-registration-order")
            out.append(("once", shape, "%r: registered %r invoked %r" % (label, rec["reg"], rec["got"])))
            return out, nontrivial
    # never resumed although the awaited event was processed
    if k.crashed is None:
        for pid, lab in k.target.items():
            if lab is not None and lab in k.processed:
                out.append(("once", "waiter-never-invoked", "p%d still waiting on processed %r" % (pid, lab)))
                return out, nontrivial
            if lab is not None and lab[0] == "p" and lab in k.outcome and not k.probe_procs:
                # the run is over (nothing scheduled) and the joined process has terminated: its termination must have been delivered
                out.append(("term", "joiner-of-a-terminated-process-never-resumed", "p%d still waiting on %r whose body ended with %r" % (pid, lab, k.outcome[lab])))
                return out, nontrivial
    # crash prediction
    if cands:
        allowed = ([expect_crash] if expect_crash else []) + cands
        if k.crashed is None:
            t, pay, label = allowed[0]
            out.append(("crash", "unhandled-failure-of-%s-passed-silently" % kindname(label), "failure of %r at %r, no process waiting" % (label, t)))
        elif not any(k.crashed[0] == t and k.crashed[1] in ("Err", "Abort", "StopProcess", "IndexError") and tuple(k.crashed[2]) == tuple(pay) for (t, pay, label) in allowed):
            out.append(("crash", "unhandled-failure-raised-wrongly", "expected one of %r, run raised %r" % ([(t, pay) for (t, pay, l) in allowed], k.crashed[:3])))
        return out, nontrivial
    if expect_crash is None:
        if k.crashed is not None:
            out.append(("crash", "run-raised-%s-although-every-failure-was-handled" % k.crashed[1], "%r" % (k.crashed[:3],)))
    else:
        t, pay, label = expect_crash
        if k.crashed is None:
            out.append(("crash", "unhandled-failure-of-%s-passed-silently" % kindname(label), "failure of %r at %r, no process waiting" % (label, t)))
        elif k.crashed[0] != t or k.crashed[1] not in ("Err", "Abort", "StopProcess", "IndexError") or tuple(k.crashed[2]) != tuple(pay):
            out.append(("crash", "unhandled-failure-raised-wrongly", "expected Err%r at %r, run raised %r" % (pay, t, k.crashed[:3])))
    return out, nontrivial


def check_interrupts(k):
    """C04: delivery once, at the issue instant, in issue order, ahead of ordinary events; started first."""
    out = []
    nontrivial = False
    queue = {}        # victim -> list of (cause, now, log idx)
    dead = set()
    for ent in k.log:
        kind = ent[3]
        if kind == "issue":
            queue.setdefault(ent[5], []).append((ent[6], ent[2], ent[0]))
        elif kind == "end":
            dead.add(ent[4])
            queue.pop(ent[4], None)
        elif kind == "probe":
            # an ordinary occurrence takes effect: no interrupt for a live victim may be pending
            for v, q in queue.items():
                if q and v not in dead:
                    out.append(("urgent", "ordinary-%s-took-effect-before-a-pending-interrupt" % kindname(ent[4]), "%r processed while %r pending for p%d" % (ent[4], q[0][0], v)))
                    return out, nontrivial
        elif kind == "resume" and ent[6][0] == "intr":
            pid, label, cause = ent[4], ent[5], ent[6][1]
            q = queue.get(pid, [])
            if not q or q[0][0] != cause:
                out.append(("order", "interrupt-delivered-out-of-issue-order-or-twice", "p%d received %r, pending %r" % (pid, cause, [x[0] for x in q])))
                return out, nontrivial
            if q[0][1] != ent[2]:
                out.append(("deliver", "interrupt-delivered-late", "issued at %r delivered at %r" % (q[0][1], ent[2])))
                return out, nontrivial
            q.pop(0)
            # was the abandoned target due now or does it fire later?
            nontrivial = True
    if k.crashed is not None and k.crashed[1] == "Interrupt":
        unstarted = [p for p in range(len(k.procs)) if p not in k.started]
        out.append(("started", "interrupt-thrown-into-a-process-before-its-first-statement" if unstarted else "interrupt-escaped-the-victim", "%r" % (k.crashed[:3],)))
        return out, nontrivial
    if k.crashed is None:
        for v, q in queue.items():
            if q and v not in dead:
                out.append(("deliver", "interrupt-never-delivered-to-a-live-process", "p%d pending %r" % (v, [x[0] for x in q])))
                return out, nontrivial
    return out, nontrivial
