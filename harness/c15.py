"""C15 - DRR / RR / WRR visit classes cyclically with the per-visit allowance; DRR credit bounds
and fairness.  Reference = nondeterministic round-robin automata (forked on same-instant
visibility and on the pointer position after an idle period)."""
from harness import sched as S
from mc import explore

PROPERTY = "C15"
CLAUSES = ["C15.noraise", "C15.once", "C15.time", "C15.fifo", "C15.cycle", "C15.credit", "C15.fair"]
RULE = ("every arrival workload of <= N packets per (scheduler, weight table) with sizes placed below/at/above the DRR "
        "quanta, plus static backlogs; non-trivial = some decision had >= 2 classes definitely backlogged; distinct = "
        "distinct (workload, departure order, instants)")
ASSUMPTIONS = [
    "a departure order is accepted iff SOME run of the reference automaton explains it: visibility of same-instant "
    "arrivals is a monotone growing prefix, the pointer may stand anywhere after an idle period",
    "DRR.deficit is read only at settled points; for the class in transmission pre-debit, post-debit and 'forgotten' "
    "values are all accepted (the statement does not fix the debit moment)",
]


def plan(tier, seed):
    quick = tier == "quick"
    cfgs = []
    n = 3 if quick else 4
    drr = [([[0, 1], [1, 1]], [1000, 1500, 2000]),
           ([[0, 1], [1, 2]], [1000, 1500, 3000]),
           ([[0, 2], [1, 3]], [1000, 1500, 2000]),
           ([[0, 2], [1, 4]], [1500, 3000, 4500]),
           ([[1, 2], [0, 1]], [1000, 2000, 3000])]
    for tab, sizes in drr:
        cfgs.append(dict(sched="DRR", table=tab, rate=8000, flows=[0, 1], sizes=sizes, N=n, gaps="G5", order=0, L=60))
        cfgs.append(dict(sched="DRR", table=tab, rate=8000, flows=[0, 1], sizes=sizes[:2] if quick else sizes, N=n + 1, gaps="G3", order=1))
        cfgs.append(dict(sched="DRR", table=tab, rate=8000, flows=[0, 1], sizes=[sizes[0], sizes[2]], N=6 if quick else 8,
                         gaps=["S"], order=0, static=True))
    cfgs.append(dict(sched="DRR", table=[[0, 1], [1, 50]], rate=8000, flows=[0, 1], sizes=[1000, 150000], N=n + 1, gaps=["S", 1], order=0))
    cfgs.append(dict(sched="DRR", table=[[0, 1], [1, 2]], rate=8000 * 2 ** 30, flows=[0, 1], sizes=[1000, 3000], N=n, gaps="G3", order=0, scale=2.0 ** -30))
    cfgs.append(dict(sched="DRR", table=[[0, 1], [1, 2], [2, 1]], rate=8000, flows=[0, 1, 2], sizes=[1000, 2000], N=n, gaps="G3", order=0))
    cfgs.append(dict(sched="DRR", table=[[0, 2]], rate=8000, flows=[0, 1], sizes=[1000, 2000], N=n, gaps="G3", order=0, map="one"))
    cfgs.append(dict(sched="DRR", table=[[0, 1], [1, 2]], rate=8000, flows=[0, 1], sizes=[1000, 2000], N=n, gaps="G3", order=0, map="swap"))
    for tab in ([[0, 1], [1, 1]], [[1, 1], [0, 1]]):
        cfgs.append(dict(sched="RR", table=tab, rate=8, flows=[0, 1], sizes=[1, 2], N=n + 1, gaps="G5", order=0))
    cfgs.append(dict(sched="RR", table=[[0, 1], [1, 1], [2, 1]], rate=8, flows=[0, 1, 2], sizes=[1], N=n + 1, gaps="G3", order=1))
    cfgs.append(dict(sched="RR", table=[[0, 1], [1, 1], [2, 1]], rate=8, flows=[0, 1, 2], sizes=[1], N=6 if quick else 7, gaps=["S"], order=0))
    cfgs.append(dict(sched="RR", table=[[1, 1], [0, 1], [2, 1]], rate=8, flows=[0, 1, 2], sizes=[1], N=n + 2, gaps=["S", 1], order=0))
    cfgs.append(dict(sched="WRR", table=[[1, 1], [0, 2], [2, 1]], rate=8, flows=[0, 1, 2], sizes=[1], N=n + 2, gaps=["S", 1], order=0))
    cfgs.append(dict(sched="DRR", table=[[1, 1], [0, 2], [2, 1]], rate=8000, flows=[0, 1, 2], sizes=[1000, 2000], N=n + 1, gaps=["S", 1], order=0))
    # a second live scheduler of the same kind with other weights in the same program; sizes that are not binary fractions
    cfgs.append(dict(sched="DRR", table=[[0, 1], [1, 2]], rate=8000, flows=[0, 1], sizes=[1000, 3000], N=n, gaps="G3", order=0, twin=1))
    cfgs.append(dict(sched="WRR", table=[[0, 2], [1, 1]], rate=8, flows=[0, 1], sizes=[1], N=n + 2, gaps=["S", 1], order=0, twin=1))
    cfgs.append(dict(sched="RR", table=[[0, 1], [1, 1], [2, 1]], rate=8, flows=[0, 1, 2], sizes=[1000.1, 1000.2], N=n + 1, gaps=["S", 1000, 3000], order=0))
    cfgs.append(dict(sched="WRR", table=[[0, 2], [1, 1]], rate=8, flows=[0, 1], sizes=[1000.1, 1000.2], N=n + 1, gaps=["S", 1000, 3000], order=0))
    cfgs.append(dict(sched="DRR", table=[[0, 1], [1, 2]], rate=8000, flows=[0, 1], sizes=[1000.1, 2000.2], N=n, gaps="G3", order=0))
    # weights below 1 (link shares) and a smallest weight that does not divide 1500 (quantum 2142.857...)
    cfgs.append(dict(sched="DRR", table=[[0, 0.25], [1, 0.75]], rate=8000, flows=[0, 1], sizes=[1000, 2000], N=n + 1, gaps=["S", 1], order=0))
    cfgs.append(dict(sched="DRR", table=[[0, 7], [1, 10]], rate=8000, flows=[0, 1], sizes=[857, 2000], N=n + 1, gaps=["S", 1], order=0))
    cfgs.append(dict(sched="DRR", table=[[0, 7], [1, 10]], rate=8000, flows=[0, 1], sizes=[857], N=8 if quick else 10, gaps=["S"], order=0, static=True))
    for tab in ([[0, 1], [1, 1]], [[0, 2], [1, 1]], [[0, 1], [1, 3]], [[1, 2], [0, 1]]):
        cfgs.append(dict(sched="WRR", table=tab, rate=8, flows=[0, 1], sizes=[1, 2], N=n + 1, gaps="G5", order=0))
        cfgs.append(dict(sched="WRR", table=tab, rate=8, flows=[0, 1], sizes=[1], N=7 if quick else 9, gaps=["S", 1], order=1))
    # every configuration once more with long fixed workloads (state that only breaks after hundreds of packets)
    nlong = explore.add_long(cfgs, 60 if quick else 120)
    ndebug = explore.add_debug_variants(cfgs)      # the same with every element constructed with debug=True
    return {"cfgs": cfgs, "budget": None,
            "bound": ("%d long fixed workloads (periodic arrival patterns); %d configurations repeated with debug=True; " % (nlong, ndebug)) + ("DRR: N<=%d full menu (31/packet), N<=%d reduced, static backlogs of %d; RR/WRR: N<=%d full menu, bursts to %d" % (n, n + 1, 6 if quick else 8, n + 1, 7 if quick else 9))}


def execute(ch, cfg):
    obs = []
    run = S.SchedRun(ch, cfg, watch_counters=False,
                     on_settled=(lambda r: obs.append((r.net.env.now, dict(r.sched.deficit)))) if cfg["sched"] == "DRR" else None)
    res = S.new_result(run)
    net = run.net
    kind = cfg["sched"]
    if not S.check_common(run, res, "C15"):
        return res
    order = [int(k) for k, _ in cfg["table"]]
    wt = {int(k): v for k, v in cfg["table"]}
    n = len(order)
    cls = (lambda a: S.class_of(cfg, a.flow)) if kind == "DRR" else (lambda a: a.flow)
    if kind == "DRR":
        minw = min(wt.values())
        Q = [1500.0 * wt[c] / minw for c in order]
        lmax = max(cfg["sizes"])
        zero = tuple(0.0 for _ in order)
        states = {(0, False, zero)}
        times = S.service_times(net, cfg["rate"])
    elif kind == "RR":
        states = {0}
    else:
        states = {(0, 0)}
    for k, d in enumerate(net.deps):
        busy, D, M = net.decision_sets(k)
        me = d.arr
        if len(set(cls(a) for a in D)) >= 2:
            res.nontrivial = True
        res.ev("C15.cycle")
        if not busy:
            if kind == "DRR":
                states = {(p, False, zero) for p in range(n)}
            elif kind == "RR":
                states = set(range(n))
            else:
                states = {(p, 0) for p in range(n)}
        new = set()
        nM = len(M)

        def queue(c, v):
            return [a for a in D if cls(a) == c] + [a for a in M[:v] if cls(a) == c]
        limit = 3 * n + nM + 4
        if kind == "DRR":
            limit += 2 * n * int(max(cfg["sizes"]) / min(Q) + 1)      # a packet of many quanta needs that many empty-handed visits
        if kind == "RR":
            def search(p, v, g):
                if g > limit:
                    return
                for v2 in range(v, nM + 1):
                    q = queue(order[p], v2)
                    if q:
                        if q[0] is me:
                            new.add((p + 1) % n)
                    else:
                        search((p + 1) % n, v2, g + 1)
            for p in states:
                search(p, 0, 0)
        elif kind == "WRR":
            def search(p, used, v, g):
                if g > limit:
                    return
                for v2 in range(v, nM + 1):
                    q = queue(order[p], v2)
                    if q and used < wt[order[p]]:
                        if q[0] is me:
                            new.add((p, used + 1))
                    else:
                        search((p + 1) % n, 0, v2, g + 1)
            for (p, used) in states:
                search(p, used, 0, 0)
        else:
            def search(p, mid, defs, v, g):
                if g > limit:
                    return
                c = order[p]
                for v2 in range(v, nM + 1):
                    q = queue(c, v2)
                    d2 = list(defs)
                    if not mid:
                        if not q:
                            search((p + 1) % n, False, tuple(d2), v2, g + 1)
                            continue
                        d2[p] += Q[p]
                    if q and q[0].size <= d2[p]:
                        if q[0] is me:
                            post = list(d2)
                            post[p] -= me.size
                            new.add((p, True, tuple(post), tuple(d2)))
                    else:
                        if not q:
                            d2[p] = 0.0
                        search((p + 1) % n, False, tuple(d2), v2, g + 1)
            for (p, mid, defs) in states:
                search(p, mid, defs, 0, 0)
        if not new:
            res.bad("C15.cycle", "%s:departure-order-not-explained-by-cyclic-visits" % kind,
                    "departure %d is packet %d (class %s); waiting: %s" % (k, me.i, cls(me), [(a.i, cls(a), a.size) for a in D + M]))
            return res
        if kind == "DRR":
            # credits observed while this packet is in transmission
            start, end = times[k]
            seen = [o for (t, o) in obs if start <= t < d.t]
            res.ev("C15.credit")
            keep = set()
            for (p, mid, post, pre) in new:
                okay = True
                for o in seen:
                    for x, c in enumerate(order):
                        if x == p:
                            if o[c] not in (pre[x], post[x], 0.0):
                                okay = False
                        elif o[c] != pre[x]:
                            okay = False
                if okay:
                    # the class's credit is forgotten when its queue empties: resolved by the next look
                    keep.add((p, True, post))
            if not keep:
                res.bad("C15.credit", "DRR:credit-differs-from-reference-during-transmission",
                        "departure %d packet %d: observed %s, admissible (pre-debit) %s" % (k, me.i, seen[:1], sorted(set(x[3] for x in new))[:3]))
                return res
            states = keep
        else:
            states = new
    if kind == "DRR":
        for (t, o) in obs:
            res.ev("C15.credit")
            for x, c in enumerate(order):
                if not (0 <= o[c] < Q[x] + lmax):
                    res.bad("C15.credit", "DRR:credit-outside-[0,quantum+Lmax)", "t=%r credit %s quantum %s" % (t, o, Q))
                    return res
            present = any(a.t <= t and (a.dep is None or a.dep.t > t) for a in net.arrs)
            if not present and any(o[c] != 0 for c in order):
                res.bad("C15.credit", "DRR:credit-kept-while-idle", "t=%r credit %s" % (t, o))
                return res
        check_fair(net, cfg, res, order, Q, lmax, cls)
    return res


def check_fair(net, cfg, res, order, Q, lmax, cls):
    """Over every departure interval in which two classes stay backlogged."""
    deps = net.deps
    m = len(deps)
    if m < 2:
        return
    qi = {c: Q[x] for x, c in enumerate(order)}
    # backlog intervals: class c is backlogged at time t iff some packet of c has arrived (<= t) and not departed (> t)
    def backlogged_throughout(c, t0, t1):
        # piecewise check at all event instants in [t0, t1)
        pts = sorted(set([t0] + [a.t for a in net.arrs if t0 < a.t < t1] + [d.t for d in deps if t0 < d.t < t1]))
        for t in pts:
            if not any(cls(a) == c and a.t <= t and a.dep.t > t for a in net.arrs):
                return False
        return True
    times = S.service_times(net, cfg["rate"])
    for a in range(m):
        for b in range(a, m):
            t0, t1 = times[a][0], deps[b].t
            sent = {}
            for d in deps[a:b + 1]:
                sent[cls(d.arr)] = sent.get(cls(d.arr), 0) + d.arr.size
            for x, i in enumerate(order):
                for j in order[x + 1:]:
                    if backlogged_throughout(i, t0, t1) and backlogged_throughout(j, t0, t1):
                        res.ev("C15.fair")
                        gap = abs(sent.get(i, 0) / qi[i] - sent.get(j, 0) / qi[j])
                        if not gap < 4 + 3 * lmax * (1 / qi[i] + 1 / qi[j]):
                            res.bad("C15.fair", "DRR:normalised-service-gap-exceeds-bound",
                                    "departures %d..%d classes %d,%d sent %s quanta %s" % (a, b, i, j, sent, qi))
                            return
