import onl.sim.rt as rt
from onl.sim import Environment, RealtimeEnvironment
from onl.packet import Packet, PacketSink
from onl.netdev import TokenBucket, Wire
from onl.netdev.red_port import REDPort
import random
# virtual wall clock
class VClock:
    def __init__(s): s.t=100.0; s.calls=0; s.sleeps=[]
    def monotonic(s): s.calls+=1; return s.t
    def sleep(s, d): s.sleeps.append(d); s.t += d
vc = VClock(); rt.monotonic = vc.monotonic; rt.sleep = vc.sleep
env = RealtimeEnvironment(initial_time=5, factor=0.5, strict=True); log=[]
def p(env):
    yield env.timeout(1); log.append((env.now, vc.t)); vc.t += 0.4
    yield env.timeout(2); log.append((env.now, vc.t)); vc.t += 0.6001
    yield env.timeout(0); log.append((env.now, vc.t))
env.process(p(env))
try: env.run()
except RuntimeError as e: log.append(str(e))
print(log, vc.sleeps, vc.calls)
# sink inter-arrival
env = Environment(); ps = PacketSink(env, absolute_arrivals=False)
def d(env):
    for t in (1,2,4):
        yield env.timeout(t); ps.put(Packet(env.now-0.5, 10, 1, flow_id=3))
env.process(d(env)); env.run(); print(dict(ps.arrivals), dict(ps.waits), dict(ps.packets_received), dict(ps.bytes_received))
# random patch
orig = random.uniform
answers = iter([0.9, 0.1, 0.9])
random.uniform = lambda a,b: next(answers)
env = Environment(); out=[]
class R: 
    def put(s,p): out.append((env.now,p.packet_id))
w = Wire(env, lambda: 2, loss_rate=0.5); w.out = R()
def d2(env):
    for i in range(3):
        w.put(Packet(env.now, 10, i)); yield env.timeout(1)
env.process(d2(env)); env.run(until=20); print(out)
