# throwaway: C02/C04 oracles (value delivery, exactly-once, crash prediction, interrupt order/detach) on the real kernel
import time, sys
from onl.sim import Environment, Interrupt
class Err(Exception): pass
class Chooser:
    def __init__(s, prefix, depth): s.prefix=prefix; s.trace=[]; s.depth=depth
    def choose(s, n):
        i=len(s.trace)
        if i>=s.depth: return None
        c = s.prefix[i] if i < len(s.prefix) else 0
        s.trace.append((n,c)); return c
ALPHA = ['ret','raise','T0','T1','Wc','Wn','Se','Fe','Jc','Jn','Io']
def run(prefix, depth):
    ch = Chooser(prefix, depth); env = Environment(); bad=[]
    outcome={}      # label -> (ok, payload)
    target={}       # pid -> label currently awaited (None if running/dead)
    pend_intr={}    # pid -> list of cause tags issued, not yet delivered
    alive=set(); procs=[]; nid=[0]
    expect_crash=[None]
    ev=env.event()
    def probe(label):
        def cb(e):
            ok,pay=outcome[label]
            if not ok:
                waiters=[p for p,t in target.items() if t==label]
                if not waiters and expect_crash[0] is None: expect_crash[0]=(env.now,pay)
        return cb
    ev.callbacks.append(probe('ev'))
    def wait(pid, evt, label, catching):
        # generator helper: returns ('ok',v)/('exc',e)/('intr',cause)
        target[pid]=label
        try:
            v = yield evt
            return ('ok', v)
        except Err as e:
            if catching: return ('exc', e)
            raise
        except Interrupt as i:
            return ('intr', i.cause)
    def body(pid):
        pass
        while True:
            target[pid]=None
            c = ch.choose(len(ALPHA))
            a = ALPHA[c] if c is not None else 'ret'
            if a=='ret':
                alive.discard(pid); outcome[('p',pid)]=(True,('r',pid)); return ('r',pid)
            if a=='raise':
                alive.discard(pid); outcome[('p',pid)]=(False,('x',pid)); raise Err(('x',pid))
            if a in ('T0','T1'):
                nid[0]+=1; lab=('to',nid[0]); d=int(a[1]); outcome[lab]=(True,('v',lab))
                t=env.timeout(d, value=('v',lab)); t.callbacks.append(probe(lab)); evt=t; catching=True
            elif a in ('Wc','Wn'): evt=ev; lab='ev'; catching=(a=='Wc')
            elif a=='Se':
                try:
                    ev.succeed(('v','ev',pid)); 
                    if 'ev' in outcome: bad.append('retrigger allowed')
                    outcome['ev']=(True,('v','ev',pid))
                except RuntimeError:
                    if 'ev' not in outcome: bad.append('spurious RuntimeError')
                continue
            elif a=='Fe':
                try:
                    ev.fail(Err(('f','ev',pid)))
                    if 'ev' in outcome: bad.append('retrigger allowed')
                    outcome['ev']=(False,('f','ev',pid))
                except RuntimeError:
                    if 'ev' not in outcome: bad.append('spurious RuntimeError')
                continue
            elif a in ('Jc','Jn'):
                o=(pid+1)%len(procs); evt=procs[o]; lab=('p',o); catching=(a=='Jc')
            elif a=='Io':
                o=(pid+1)%len(procs); nid[0]+=1; cause=('i',nid[0])
                try:
                    procs[o].interrupt(cause)
                    if o not in alive: bad.append('interrupt of dead accepted')
                    pend_intr.setdefault(o,[]).append((cause, env.now))
                except RuntimeError:
                    if o in alive and o!=pid: bad.append('interrupt of live refused')
                continue
            # wait, possibly re-waiting after interrupts
            while True:
                t_issue=env.now
                try:
                    r = yield from wait(pid, evt, lab, catching)
                except Err as e:
                    # non-catching: verify it is the right exception then die with it
                    ok,pay=outcome.get(lab,(None,None))
                    if ok is not False or e.args!=(pay,): bad.append(('wrong exc',lab,e.args,pay))
                    alive.discard(pid); target[pid]=None; outcome[('p',pid)]=(False,pay); raise
                if r[0]=='intr':
                    q=pend_intr.get(pid,[])
                    if not q or q[0][0]!=r[1]: bad.append(('intr order',pid,r[1],q[:1]))
                    else:
                        if q[0][1]!=env.now: bad.append(('intr late',q[0],env.now))
                        q.pop(0)
                    c2 = ch.choose(3)   # reaction: 0 go on, 1 re-wait same, 2 return
                    if c2==1: continue
                    if c2==2:
                        alive.discard(pid); target[pid]=None; outcome[('p',pid)]=(True,('r',pid)); return ('r',pid)
                    break
                ok,pay=outcome.get(lab,(None,None))
                if r[0]=='ok':
                    if ok is not True or r[1]!=pay: bad.append(('wrong value',lab,r[1],pay))
                else:
                    if ok is not False or r[1].args!=(pay,): bad.append(('wrong exc',lab,r[1].args,pay))
                break
    for pid in range(2):
        procs.append(None); alive.add(pid); p=env.process(body(pid)); procs[pid]=p; p.callbacks.append(probe(("p",pid)))
    crashed=None
    try: env.run(until=40)
    except BaseException as e: crashed=(env.now,e)
    if expect_crash[0] is None:
        if crashed: bad.append(('unexpected crash',repr(crashed)))
    else:
        if not crashed: bad.append(('silent failure',expect_crash[0]))
        else:
            t,e=crashed
            if t!=expect_crash[0][0] or not isinstance(e,Err) or e.args!=(expect_crash[0][1],): bad.append(('wrong crash',repr(crashed),expect_crash[0]))
    return ch.trace, bad
def explore(depth):
    n=0; stack=[[]]; bads=[]
    while stack:
        p=stack.pop(); tr,bad=run(p,depth); n+=1
        if bad: bads.append((p,bad))
        for i in range(len(p),len(tr)):
            for alt in range(1,tr[i][0]): stack.append([c for _,c in tr[:i]]+[alt])
    return n,bads
for d in (3,4,5):
    t=time.perf_counter(); n,b=explore(d); print('depth',d,'execs',n,'bad',len(b),round(time.perf_counter()-t,1),'s')
    for x in b[:4]: print('   ',x)
