"""Shared network harness: enumerated arrival workloads, taps, ledger, single-step loop."""
from fractions import Fraction as Fr

from onl.sim import Environment
from onl.packet import Packet

INF = float("inf")

# gap codes: 'S' same driver step, 'N' same instant but a later kernel step, numbers = delay
G5 = ["S", "N", 1, 2, "L"]
G3 = ["S", 1, 2]


def menu(gaps, flows, sizes):
    return [(g, f, s) for g in gaps for f in flows for s in sizes]


class Arr:
    __slots__ = ("i", "seq", "t", "step", "flow", "size", "pkt", "dep", "snap")

    def __init__(self, i, seq, t, step, flow, size, pkt):
        self.i = i; self.seq = seq; self.t = t; self.step = step
        self.flow = flow; self.size = size; self.pkt = pkt
        self.dep = None
        self.snap = snapshot(pkt)


class Dep:
    __slots__ = ("seq", "t", "pkt", "arr", "out", "extra")

    def __init__(self, seq, t, pkt, out=0):
        self.seq = seq; self.t = t; self.pkt = pkt; self.arr = None; self.out = out; self.extra = None


def snapshot(p):
    return (p.packet_id, p.flow_id, p.src, p.size, p.time, p.payload)


class Sink:
    """Recording tap at an element's output."""

    def __init__(self, net, out=0, nxt=None):
        self.net = net; self.out_idx = out; self.nxt = nxt
        self.element_id = "sink%d" % out

    def put(self, pkt):
        net = self.net
        net.seq += 1
        d = Dep(net.seq, net.env.now, pkt, self.out_idx)
        a = net.by_obj.get(id(pkt))
        if a is not None and a.pkt is pkt:
            d.arr = a
            if a.dep is None:
                a.dep = d
        net.deps.append(d)
        if net.on_dep:
            net.on_dep(d)
        if self.nxt is not None:
            self.nxt.put(pkt)


class Net:
    def __init__(self, env=None):
        self.env = env or Environment()
        self.seq = 0
        self.step = 0
        self.arrs = []
        self.deps = []
        self.by_obj = {}
        self.on_dep = None
        self.after_put = None
        self.error = None
        self.keep = []          # keep packets alive so id() stays unique
        self.per_flow = {}
        self.ids_down = False   # True: packet ids fall within a flow (retransmissions / resequenced traffic): ids say nothing about order

    def sink(self, out=0, nxt=None):
        return Sink(self, out, nxt)

    def arrive(self, target, flow, size, src="src", payload=None):
        env = self.env
        i = len(self.arrs)
        # packet ids are numbered per flow (as real generators do), so they say nothing about arrival order across flows
        self.per_flow[flow] = self.per_flow.get(flow, 0) + (-1 if self.ids_down else 1)
        # created one second before it reaches the element (creation time is not arrival time)
        if payload is None:
            # payloads are opaque to every element: nothing, a dict, a string full of format characters
            payload = (None, {"n": i}, '{"k": "%s {0} {}"}')[i % 3]
        # flow ids are equal to the configured ones but not the same objects (ids computed per packet); every other packet
        # is built with a provisional size and gets its real one before it is sent (encapsulation adds a header)
        fid = int(str(flow)) if isinstance(flow, int) and not isinstance(flow, bool) else flow
        if i % 2:
            pkt = Packet(env.now - 1, size + 7, self.per_flow[flow], src=src, flow_id=fid, payload=payload)
            pkt.size = size
        else:
            pkt = Packet(env.now - 1, size, self.per_flow[flow], src=src, flow_id=fid, payload=payload)
        self.seq += 1
        a = Arr(i, self.seq, env.now, self.step, flow, size, pkt)
        self.arrs.append(a)
        self.by_obj[id(pkt)] = a
        self.keep.append(pkt)
        target.put(pkt)
        if self.after_put:
            self.after_put(a)
        return a

    def driver(self, ch, N, items, target, long_gap=50, src="src", scale=1):
        """Generator process issuing at most N arrivals chosen from `items` (+ stop)."""
        env = self.env
        first = [it for it in items if it[0] != "N"]
        for k in range(N):
            m = first if k == 0 else items
            c = ch.choose(len(m) + 1, lambda c, m=m, k=k: "arrival %d: %s" % (k, "stop" if c == 0 else "gap=%s flow=%s size=%s" % m[c - 1]), free=True)
            if c == 0:
                return
            gap, flow, size = m[c - 1]
            if gap == "S":
                pass
            elif gap == "N":
                yield env.timeout(0)
                self.step += 1
            elif gap == "L":
                yield env.timeout(long_gap * scale)
                self.step += 1
            else:
                yield env.timeout(gap * scale)
                self.step += 1
            self.arrive(target, flow, size, src=src)

    def run(self, horizon, after_step=None, settled=None, max_steps=100000):
        """Single-step loop up to `horizon`; `settled` is called whenever the clock is about to
        advance (and at the end), `after_step` after every kernel step."""
        env = self.env
        n = 0
        try:
            while True:
                t = env.peek()
                if t == INF or t > horizon:
                    break
                if t > env.now and settled:
                    settled()
                env.step()
                n += 1
                if after_step:
                    after_step()
                if n > max_steps or n > 5000 + 500 * len(self.arrs):
                    self.error = ("livelock", "kernel-steps-beyond-5000+500-per-arrival")
                    break
            if settled and self.error is None:
                settled()
        except BaseException as e:  # noqa
            self.error = (type(e).__name__, _where(e))
        return self.error

    # ---- analyses shared by the scheduler properties -------------------------------------
    def undeparted_before(self, k):
        """arrivals not departed by departures[:k], in arrival order"""
        gone = set(id(d.arr) for d in self.deps[:k] if d.arr is not None)
        return [a for a in self.arrs if id(a) not in gone]

    def decision_sets(self, k, und=None):
        """(busy, D, M) for the service decision that led to departure k (see DESIGN 2.4)."""
        d = self.deps[k]
        und = und if und is not None else self.undeparted_before(k)
        prev = self.deps[k - 1] if k > 0 else None
        if prev is not None and any(a.t <= prev.t for a in und):
            D = [a for a in und if a.seq < prev.seq]
            M = [a for a in und if a.seq > prev.seq and a.t == prev.t]
            return True, D, M
        if not und:
            return False, [], []
        first = und[0]
        D = [a for a in und if a.t == first.t and a.step == first.step]
        last = max(a.seq for a in D)
        D = [a for a in und if a.seq <= last]
        M = [a for a in und if a.seq > last and a.t == first.t]
        return False, D, M


def _where(e):
    """innermost onl/ frame of the original exception (the kernel re-raises a copy with __cause__)"""
    last = None
    seen = 0
    # the watchdog strikes wherever the spinning code happens to be: name the process body (outermost frame outside the
    # kernel) instead of the innermost frame, so that one hang is one shape
    outermost = type(e).__name__ == "ExecTimeout"
    while e is not None and seen < 10:
        tb = e.__traceback__
        here = None
        while tb is not None:
            fn = tb.tb_frame.f_code.co_filename
            if "/onl/" in fn and not (outermost and ("/onl/sim/" in fn or here)):
                here = "%s:%s" % (fn.split("/onl/")[-1], tb.tb_frame.f_code.co_name)
            tb = tb.tb_next
        if here:
            last = here
        e = e.__cause__
        seen += 1
    return last or "?"
