#!/bin/bash
# Diagnostic only (not evidence): which lines of /repo/onl do the quick checks reach?  Each check runs single-process under
# coverage for at most $1 seconds (default 45); the union is reported.  Output: /tmp/onl_cov/report.txt
T=${1:-45}
rm -rf /tmp/onl_cov; mkdir -p /tmp/onl_cov; cd /verif
for i in $(seq -w 1 20); do
  PYTHONHASHSEED=0 COVERAGE_FILE=/tmp/onl_cov/.coverage.C$i VERIF_WORKERS=1 VERIF_DIAG_MAX_EXEC=${2:-400} timeout $T /venv/bin/python -m coverage run --source=/repo/onl run.py C$i --no-evidence >/dev/null 2>&1
done
cd /tmp/onl_cov && /venv/bin/python -m coverage combine /tmp/onl_cov/.coverage.C* >/dev/null 2>&1
/venv/bin/python -m coverage report -m --omit='*/proxy_*,*/udp.py,*/testing.py' > /tmp/onl_cov/report.txt 2>&1
tail -60 /tmp/onl_cov/report.txt
