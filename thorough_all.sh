#!/bin/bash
# runs every thorough check sequentially, evidence to a scratch dir (background validation; not the registered evidence)
mkdir -p /tmp/thorough_ev
for i in ${CHECKS:-$(seq -w 1 20)}; do
  /usr/bin/time -f "C$i %es" /venv/bin/python run.py C$i --tier thorough --evidence-dir /tmp/thorough_ev 2>&1 | grep -E "VIOLATION|KNOWN-FINDING|tier=|^C[0-9]+ [0-9.]+s" | cut -c1-600
done
