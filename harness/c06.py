"""C06 - resources never exceed capacity, grant in queue order, never idle a slot; preemption rule."""
from mc.explore import Result
from mc.resref import ResRef
from mc.kclient import INF

from onl.sim import Environment, Interrupt, Resource, PriorityResource, PreemptiveResource
from onl.sim.resources.resource import Preempted

PROPERTY = "C06"
CLAUSES = ["C06.cap", "C06.noidle", "C06.order", "C06.preempt", "C06.harmless", "C06.noraise"]
RULE = ("(B) every history of <= D operations (no two consecutive ticks while no request is outstanding) {request(priority, preempt), release, release twice, release of another "
        "process's finished request, release of an own request that is still waiting, cancel, with-exit, tick} issued to 3 puppet processes, operations between two ticks "
        "happening inside one instant, legality decided by what each puppet has observed; (A) every population of N customer "
        "scripts (arrival, priority, preempt, patience, hold, reaction to preemption; optionally one customer interrupted from outside, leaving its with-block through the exception) written with `with res.request() as r: "
        "yield r | timeout`; on Resource, PriorityResource, PreemptiveResource with capacity 1-2(3); non-trivial = the queue "
        "was non-empty at some tick or a preemption happened; distinct = distinct (history, final state log)")
ASSUMPTIONS = [
    "reference = set of admissible states: after a release the hand-over to the next waiter may happen at any point of the "
    "same instant (forked before every later operation), and must have happened when the clock is about to advance",
    "each process holds or awaits at most one request; double cancel and holders that die without releasing are outside the alphabet",
]
NP = 3
KINDS = {"plain": Resource, "prio": PriorityResource, "preemptive": PreemptiveResource}


def plan(tier, seed):
    quick = tier == "quick"
    d = 6 if quick else 8
    cfgs = []
    for kind in ("plain", "prio", "preemptive"):
        for cap in ((1, 2) if quick else (1, 2, 3)):
            cfgs.append(dict(driver="B", kind=kind, cap=cap, depth=d if kind == "plain" else d - 1))
    # priorities are numbers, not necessarily whole ones
    cfgs.append(dict(driver="B", kind="preemptive", cap=1, depth=d - 1, prios=[0.25, 0.75]))
    cfgs.append(dict(driver="B", kind="prio", cap=1, depth=d - 1, prios=[1.5, 1.25]))
    # a second resource in the program: releasing through one resource a request that belongs to the other is harmless for both
    for kind in ("plain", "preemptive"):
        cfgs.append(dict(driver="B", kind=kind, cap=1, depth=d - 2, second=1))
    # four customers over three priority levels (a newcomer that outranks two waiting requests)
    cfgs.append(dict(driver="A", kind="prio", cap=1, n=4, rich=0, prios3=1))
    # capacity 2, four customers, three levels, mixed preempt flags (a preempting request queued behind a better-ranked one that does not preempt)
    cfgs.append(dict(driver="A", kind="preemptive", cap=2, n=4, rich=0, prios3=1, slim=1))
    for kind in ("plain", "prio", "preemptive"):
        for cap in (1, 2):
            cfgs.append(dict(driver="A", kind=kind, cap=cap, n=3 if quick else (4 if kind == "plain" else 3), rich=0 if quick else 1,
                             lean=1 if quick and kind == "preemptive" and cap == 2 else 0))
    return {"cfgs": cfgs, "budget": None,
            "bound": "B: histories of <=%d operations (priority/preemptive %d) on 3 puppets, capacity 1..%d; A: %d customer scripts" % (d, d - 1, 2 if quick else 3, 3)}


def ops_menu(kind, prios=(0, 1)):
    m = [("tick",), ("flush",)]
    for p in range(NP):
        if kind == "plain":
            m.append(("req", p, 0, False))
        else:
            for prio in prios:
                for pre in ((True, False) if kind == "preemptive" else (False,)):
                    m.append(("req", p, prio, pre))
        m += [("rel", p), ("cancel", p), ("exit", p), ("relother", p), ("rel2", p), ("relq", p)]
    return m


def execute(ch, cfg):
    if cfg["driver"] == "A":
        return exec_scripts(ch, cfg)
    res = Result()
    res.digest = tuple(exec_puppets(ch, cfg, res))
    return res


def exec_puppets(ch, cfg, res):
    kind, cap = cfg["kind"], cfg["cap"]
    env = Environment()
    r = KINDS[kind](env, cap)
    ref = ResRef(kind, cap)
    mailbox = [env.event() for _ in range(NP)]
    myreq = [None] * NP
    seen_grant = [False] * NP
    outstanding = [False] * NP
    grants, preempts, causes = [], [], []
    procs = []
    tag = "%s(cap=%d)" % (r.__class__.__name__, cap)

    def puppet(pid):
        while True:
            try:
                cmd = yield mailbox[pid]
            except Interrupt as i:
                c = i.cause
                by = procs.index(c.by) if isinstance(c, Preempted) and c.by in procs else None
                preempts.append((pid, by, env.now))
                causes.append((pid, isinstance(c, Preempted), getattr(c, "usage_since", None), getattr(c, "resource", None) is r))
                seen_grant[pid] = False
                outstanding[pid] = False
                continue
            mailbox[pid] = env.event()
            op = cmd[0]
            if op == "req":
                q = r.request() if kind == "plain" else r.request(priority=cmd[2], preempt=cmd[3])
                myreq[pid] = q
                outstanding[pid] = True
                seen_grant[pid] = False

                def cb(e, pid=pid, q=q):
                    grants.append((pid, env.now))
                    if myreq[pid] is q:
                        seen_grant[pid] = True
                q.callbacks.append(cb)
            elif op in ("rel", "rel2"):
                r.release(myreq[pid])
                outstanding[pid] = False
                seen_grant[pid] = False
                if op == "rel2":
                    r.release(myreq[pid])
            elif op == "cancel":
                myreq[pid].cancel()
                outstanding[pid] = bool(myreq[pid].triggered)
            elif op == "exit":
                myreq[pid].__exit__(None, None, None)
                outstanding[pid] = False
                seen_grant[pid] = False
            elif op == "relother":
                r.release(myreq[(pid + 1) % NP])
            elif op == "relx":
                r.release(other["held"])           # the other resource's user, named in a release on this one
            elif op == "relx2":
                other["r2"].release(myreq[pid])    # this resource's user, named in a release on the other one
            elif op == "relq":
                # releasing a request that (as far as its owner knows) is still waiting: releasing a non-user is harmless,
                # the request stays queued and is granted later like any other
                r.release(myreq[pid])
    procs.extend(env.process(puppet(p)) for p in range(NP))
    other = {}
    if cfg.get("second"):
        r2 = KINDS[kind](env, 1)
        other["r2"] = r2

        def bystander():
            with r2.request() as q:
                other["held"] = q
                yield q
                yield env.event()          # keeps the slot for good

        def waiter():
            with r2.request() as w:
                other["waiting"] = w
                yield w
                other["granted"] = env.now
        env.process(bystander())
        env.process(waiter())
    env.run(until=0.5)
    batch = []
    hist = []
    err = [None]

    def steps():
        while env.peek() <= env.now:
            env.step()
            res.ev("C06.cap")
            if r.count > cap or len(set(id(u) for u in r.users)) != len(r.users):
                res.bad("C06.cap", tag + ":more-users-than-capacity", "count %d" % r.count)
                return False
        return True

    def flush():
        for op in batch:
            mailbox[op[1]].succeed(op)
        del batch[:]
        return steps()

    def legal(op):
        p = op[1]
        if op[0] == "req":
            return not outstanding[p]
        if op[0] in ("rel", "rel2"):
            return outstanding[p] and seen_grant[p]
        if op[0] in ("cancel", "relq"):
            return outstanding[p] and not seen_grant[p]
        if op[0] == "exit":
            return outstanding[p]
        if op[0] == "relother":
            o = (p + 1) % NP
            return myreq[o] is not None and not outstanding[o]
        if op[0] == "relx":
            return bool(cfg.get("second"))
        if op[0] == "relx2":
            return bool(cfg.get("second")) and outstanding[p] and seen_grant[p]

    def compare(where):
        res.ev("C06.order")
        iu = sorted(procs.index(u.proc) for u in r.users)
        iq = [procs.index(q.proc) for q in r.queue]
        ok = ref.matches(iu, iq, tuple(grants), tuple(preempts))
        if not ok:
            # which part disagrees with every admissible state?
            part = "users"
            if any(sorted(u[0] for u in st[0]) == iu for st in ref.states):
                part = "queue-order"
                if any(sorted(u[0] for u in st[0]) == iu and [q[0] for q in st[1]] == iq for st in ref.states):
                    part = "grant-sequence" if not preempts and not any(st[4] for st in ref.states) else "preemption"
            clause = "C06.preempt" if part == "preemption" else "C06.order"
            res.bad(clause, "%s:%s-differs-from-every-admissible-state" % (tag, part),
                    "%s at t=%r after %r: users %s queue %s grants %s preempts %s; admissible e.g. %r" % (where, env.now, hist, iu, iq, grants, preempts, sorted(ref.states)[:1]))
            return False
        if cfg.get("second"):
            res.ev("C06.harmless")
            r2 = other["r2"]
            if list(r2.users) != [other["held"]] or list(r2.queue) != [other["waiting"]] or "granted" in other:
                res.bad("C06.harmless", tag + ":release-naming-another-resource's-request-changed-that-resource", "after %r: second resource has %d users, %d waiting" % (hist, len(r2.users), len(r2.queue)))
                return False
        for (pid, isp, since, isres) in causes:
            res.ev("C06.preempt")
            g = [t for (p, t) in grants if p == pid]
            if not isp or not isres or not g or since not in g:
                res.bad("C06.preempt", tag + ":wrong-Preempted-cause", "victim %d: Preempted=%s usage_since=%r resource-ok=%s grants %s" % (pid, isp, since, isres, g))
                return False
        return True
    menu = ops_menu(kind, cfg.get("prios", (0, 1)))
    if cfg.get("second"):
        menu = menu + [("relx", p) for p in range(NP)] + [("relx2", p) for p in range(NP)]
    n = 0
    res.ev("C06.noraise")
    try:
        while n < cfg["depth"]:
            # two operations of one puppet are separated by a flush, so legality is always decided on fresh observations
            busy = set(b[1] for b in batch) | set((b[1] + 1) % NP for b in batch if b[0] == "relother")
            opts = [op for op in menu if (op[0] == "tick" and (any(outstanding) or batch or not hist or hist[-1][0] != "tick"))
                    or (op[0] == "flush" and batch)
                    or (op[0] not in ("tick", "flush") and op[1] not in busy and not (op[0] == "relother" and (op[1] + 1) % NP in busy) and legal(op))]
            c = ch.choose(len(opts) + 1, lambda c: "op %s" % ("end" if c == 0 else (opts[c - 1],)), free=True)
            if c == 0:
                break
            op = opts[c - 1]
            n += 1
            hist.append(op)
            if op[0] == "tick":
                if not flush():
                    return (tuple(hist), tuple(grants), tuple(preempts))
                ref.settle(env.now)
                res.ev("C06.noidle")
                if r.queue and r.count < cap:
                    res.bad("C06.noidle", tag + ":request-waiting-while-a-slot-is-free", "t=%r after %r" % (env.now, hist))
                    return (tuple(hist), tuple(grants), tuple(preempts))
                if r.queue or preempts:
                    res.nontrivial = True
                if not compare("tick"):
                    return (tuple(hist), tuple(grants), tuple(preempts))
                env.run(until=env.now + 1)
                continue
            if op[0] == "flush":
                if not flush():
                    return (tuple(hist), tuple(grants), tuple(preempts))
                ref.settle(env.now)     # everything due now has run: pending hand-overs have happened
                if not compare("flush"):
                    return (tuple(hist), tuple(grants), tuple(preempts))
                continue
            p = op[1]
            batch.append(op)
            now = env.now
            if op[0] == "req":
                ref.request(p, op[2] if kind != "plain" else 0, op[3] if kind != "plain" else False, now)
            elif op[0] == "rel":
                ref.release(p, now)
            elif op[0] == "rel2":
                ref.release(p, now)
                ref.noop(now)
                res.ev("C06.harmless")
            elif op[0] in ("relother", "relx", "relx2"):
                ref.noop(now)
                res.ev("C06.harmless")
            elif op[0] == "relq":
                ref.release(p, now)      # a no-op on the queue; frees the slot if it had been granted unnoticed
                res.ev("C06.harmless")
            elif op[0] == "cancel":
                ref.cancel(p, now)
            elif op[0] == "exit":
                ref.exit(p, now)
        if not flush():
            return (tuple(hist), tuple(grants), tuple(preempts))
        ref.settle(env.now)
        res.ev("C06.noidle")
        if r.queue and r.count < cap:
            res.bad("C06.noidle", tag + ":request-waiting-while-a-slot-is-free", "t=%r after %r" % (env.now, hist))
            return (tuple(hist), tuple(grants), tuple(preempts))
        compare("end")
    except BaseException as e:  # noqa
        from mc.net import _where
        res.ev("C06.noraise")
        res.bad("C06.noraise", "%s:%s@%s" % (tag, type(e).__name__, _where(e)), "after %r: %r" % (hist, e))
    return (tuple(hist), tuple(grants), tuple(preempts))


def exec_scripts(ch, cfg):
    res = Result()
    kind, cap, n = cfg["kind"], cfg["cap"], cfg["n"]
    env = Environment()
    r = KINDS[kind](env, cap)
    ref = ResRef(kind, cap)
    tag = "%s(cap=%d,with-blocks)" % (r.__class__.__name__, cap)
    arrivals = [0, 1, 2] if kind == "plain" or cfg.get("rich") else [0, 1]
    patiences = [0, 1, None] if kind != "preemptive" or cfg.get("rich") else [None]
    if cfg.get("prios3"):
        patiences = [None]
    specs = []
    for i in range(n):
        a = arrivals[ch.choose(len(arrivals), lambda c, i=i: "customer %d arrives at %d" % (i, arrivals[c]), free=True)]
        if cfg.get("prios3"):
            prio = ch.choose(3, lambda c, i=i: "customer %d priority %d" % (i, c), free=True)
        else:
            prio = ch.choose(2, lambda c, i=i: "customer %d priority %d" % (i, c), free=True) if kind != "plain" else 0
        pre = bool(ch.choose(2, lambda c, i=i: "customer %d preempt=%s" % (i, bool(c)), free=True)) if kind == "preemptive" else False
        pat = patiences[ch.choose(len(patiences), lambda c, i=i: "customer %d patience %s" % (i, patiences[c]), free=True)]
        if cfg.get("slim"):
            hold, again = 2, False
        else:
            hold = 1 + ch.choose(2, lambda c, i=i: "customer %d holds for %d" % (i, c + 1), free=True)
            again = bool(ch.choose(2, lambda c, i=i: "customer %d after preemption: %s" % (i, "requests again" if c else "leaves"), free=True)) if kind == "preemptive" else False
        specs.append((a, prio, pre, pat, hold, again))
    grants, preempts, causes, procs, done = [], [], [], [], []

    def customer(i, spec):
        a, prio, pre, pat, hold, again = spec
        if a:
            try:
                yield env.timeout(a)
            except Interrupt:
                done.append(i)
                return
        rounds = 0
        while rounds < 2:
            rounds += 1
            redo = False
            try:
                with (r.request() if kind == "plain" else r.request(priority=prio, preempt=pre)) as req:
                    req.callbacks.append(lambda e, i=i: grants.append((i, env.now)))
                    ref.request(i, prio, pre, env.now)
                    if pat is None:
                        yield req
                        got = True
                    else:
                        out = yield req | env.timeout(pat)
                        got = req in out
                    if got:
                        yield env.timeout(hold)
                ref.exit(i, env.now)
            except Interrupt as intr:
                # the with-block was left through the exception: its exit must have released / cancelled
                ref.exit(i, env.now)
                c = intr.cause
                if c == "killed":
                    break
                by = procs.index(c.by) if isinstance(c, Preempted) and c.by in procs else None
                preempts.append((i, by, env.now))
                causes.append((i, isinstance(c, Preempted), getattr(c, "usage_since", None), getattr(c, "resource", None) is r))
                redo = again
            if not redo:
                break
        done.append(i)
    for i in range(n):
        procs.append(env.process(customer(i, specs[i])))
    kc = 0 if cfg.get("prios3") else ch.choose(1 + 2 * min(n, 2), lambda c: "no outside interrupt" if c == 0 else "customer %d is interrupted from outside at t=%d" % ((c - 1) // 2, 1 + (c - 1) % 2), free=True)
    if kc:
        def killer(v, t):
            yield env.timeout(t)
            if procs[v].is_alive:
                procs[v].interrupt("killed")
        env.process(killer((kc - 1) // 2, 1 + (kc - 1) % 2))
    specs.append(("kill", kc))
    res.digest = (tuple(specs),)

    def compare(where):
        res.ev("C06.order")
        iu = sorted(procs.index(u.proc) for u in r.users)
        iq = [procs.index(q.proc) for q in r.queue]
        if not ref.matches(iu, iq, tuple(grants), tuple(preempts)):
            part = "users"
            if any(sorted(u[0] for u in st[0]) == iu for st in ref.states):
                part = "queue-order"
                if any(sorted(u[0] for u in st[0]) == iu and [q[0] for q in st[1]] == iq for st in ref.states):
                    part = "grant-sequence" if not preempts and not any(st[4] for st in ref.states) else "preemption"
            res.bad("C06.preempt" if part == "preemption" else "C06.order", "%s:%s-differs-from-every-admissible-state" % (tag, part),
                    "%s at t=%r customers %r: users %s queue %s grants %s preempts %s; admissible e.g. %r" % (where, env.now, specs, iu, iq, grants, preempts, sorted(ref.states)[:1]))
            return False
        if cfg.get("second"):
            res.ev("C06.harmless")
            r2 = other["r2"]
            if list(r2.users) != [other["held"]] or list(r2.queue) != [other["waiting"]] or "granted" in other:
                res.bad("C06.harmless", tag + ":release-naming-another-resource's-request-changed-that-resource", "after %r: second resource has %d users, %d waiting" % (hist, len(r2.users), len(r2.queue)))
                return False
        for (pid, isp, since, isres) in causes:
            res.ev("C06.preempt")
            g = [t for (p, t) in grants if p == pid]
            if not isp or not isres or not g or since not in g:
                res.bad("C06.preempt", tag + ":wrong-Preempted-cause", "victim %d: Preempted=%s usage_since=%r resource-ok=%s grants %s" % (pid, isp, since, isres, g))
                return False
        return True
    res.ev("C06.noraise")
    try:
        steps = 0
        while env.peek() < INF and steps < 5000:
            if env.peek() > env.now:
                ref.settle(env.now)
                res.ev("C06.noidle")
                if r.queue and r.count < cap:
                    res.bad("C06.noidle", tag + ":request-waiting-while-a-slot-is-free", "t=%r customers %r" % (env.now, specs))
                    return res
                if r.queue or preempts:
                    res.nontrivial = True
                if not compare("clock-advance"):
                    return res
            env.step()
            steps += 1
            res.ev("C06.cap")
            if r.count > cap:
                res.bad("C06.cap", tag + ":more-users-than-capacity", "count %d customers %r" % (r.count, specs))
                return res
        ref.settle(env.now)
        if not compare("end"):
            return res
        res.ev("C06.noidle")
        if len(done) != n or r.count or r.queue:
            res.bad("C06.noidle", tag + ":customer-never-served-or-slot-never-returned", "finished %s of %d, users %d queue %d; customers %r" % (done, n, r.count, len(r.queue), specs))
    except BaseException as e:  # noqa
        from mc.net import _where
        res.ev("C06.noraise")
        res.bad("C06.noraise", "%s:%s@%s" % (tag, type(e).__name__, _where(e)), "customers %r: %r" % (specs, e))
    res.digest = (tuple(specs), tuple(grants), tuple(preempts))
    return res
