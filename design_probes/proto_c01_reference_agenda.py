# throwaway: validate black-box C01.order oracle (sorted by (due, class, trigger seq)) on the real kernel
import time, sys
from onl.sim import Environment, Interrupt
class Chooser:
    def __init__(s, prefix, depth): s.prefix=prefix; s.trace=[]; s.depth=depth
    def choose(s, n):
        i=len(s.trace)
        if i>=s.depth: return None
        c = s.prefix[i] if i < len(s.prefix) else 0
        s.trace.append((n,c)); return c
ALPHA = ['ret','T0','T1','T2','Th','We','Se','Jo','Io','Sp']
URG, NOR = 0, 1
def run(prefix, depth, until=None):
    ch = Chooser(prefix, depth); env = Environment()
    occ=[]   # observed occurrences: (now, label)
    trig={}  # label -> (due, class, trigseq)
    seq=[0]
    elog=[]
    dead=set()
    def trigger(label, due, cls, victim=None):
        seq[0]+=1; trig[label]=(due, cls, seq[0]); elog.append(('T',label,(due,cls,seq[0]),victim))
        if label[0]=='term': dead.add(label[1]); elog.append(('D',label[1],None,None))
    def observe(label): occ.append((env.now, label)); elog.append(('O',label,env.now,None))
    evs={}; procs=[]; nextid=[0]
    def new_timeout(d):
        nextid[0]+=1; lab=('to',nextid[0])
        t = env.timeout(d); trigger(lab, env.now+d, NOR); t.callbacks.append(lambda e,lab=lab: observe(lab)); return t
    ev = env.event(); ev.callbacks.append(lambda e: observe(('ev',0)))
    def spawn():
        pid=len(procs); procs.append(None)
        p = env.process(body(pid)); procs[pid]=p
        trigger(('start',pid), env.now, URG)
        p.callbacks.append(lambda e,pid=pid: observe(('term',pid)))
        return p
    icount=[0]
    def body(pid):
        observe(('start',pid))
        while True:
            c = ch.choose(len(ALPHA))
            if c is None or c==0:
                trigger(('term',pid), env.now, NOR); return pid
            a = ALPHA[c]
            try:
                if a=='T0': yield new_timeout(0)
                elif a=='T1': yield new_timeout(1)
                elif a=='T2': yield new_timeout(2)
                elif a=='Th': yield new_timeout(0.5)
                elif a=='We': yield ev
                elif a=='Se':
                    try:
                        ev.succeed(pid); trigger(('ev',0), env.now, NOR)
                    except RuntimeError: pass
                elif a=='Jo':
                    o = procs[(pid+1)%len(procs)]
                    if o is not procs[pid]: yield o
                elif a=='Io':
                    o = procs[(pid+1)%len(procs)]
                    try:
                        icount[0]+=1; lab=('intr',icount[0])
                        o.interrupt(lab); trigger(lab, env.now, URG, victim=(pid+1)%len(procs))
                    except RuntimeError: pass
                elif a=='Sp':
                    if len(procs)<4: spawn()
            except Interrupt as i:
                observe(i.cause)
    for _ in range(2): spawn()
    crashed=None
    try:
        if until is not None:
            trigger(('stop',), until, URG)
            env.run(until=until); observe(('stop',))
            env.run(until=60)
        else:
            env.run(until=60)
    except BaseException as e: crashed=e
    # oracle
    bad=None
    pending={}; victim_of={}; deadset=set()
    for kind,lab,x,v in elog:
        if kind=='T':
            pending[lab]=x
            if v is not None: victim_of[lab]=v
        elif kind=='D': deadset.add(lab)
        else:
            now=x
            while True:
                if not pending: bad=('nothing pending',lab); break
                m=min(pending, key=lambda l: pending[l])
                if m==lab:
                    if pending[m][0]!=now: bad=('due',lab,now,pending[m])
                    del pending[m]; break
                if m[0]=='intr' and victim_of[m] in deadset:
                    del pending[m]; continue
                bad=('order',lab,'expected',m,pending[m]); break
            if bad: break
    return ch.trace, occ, bad, crashed
def explore(depth, until=None):
    n=0; stack=[[]]; bads=[]; nt=0
    while stack:
        p = stack.pop()
        tr, occ, bad, crashed = run(p, depth, until); n+=1
        if bad: bads.append((p,bad,occ))
        if crashed and not isinstance(crashed, Interrupt): bads.append((p,'crash',repr(crashed)))
        for i in range(len(p), len(tr)):
            for alt in range(1, tr[i][0]):
                stack.append([c for _,c in tr[:i]]+[alt])
    return n, bads
for d,u in ((4,None),(5,None),(4,1),(4,2)):
    t=time.perf_counter(); n,b = explore(d,u); print('depth',d,'until',u,'execs',n,'bad',len(b),round(time.perf_counter()-t,1),'s')
    for x in b[:3]: print('  ',x)
