import io, contextlib, traceback
from onl.sim import Environment
from onl.packet import Packet
from onl.scheduler import SP, WFQ, VC, DRR, RR, WRR
from onl.netdev import Port, TwoRateTokenBucket, TokenBucket, Hub
from onl.netdev.demux import FIBDemux, FlowDemux
from onl.utils import Timer

class Rec:
    def __init__(s, env): s.env=env; s.log=[]; s.element_id='rec'
    def put(s, p): s.log.append((s.env.now, p.flow_id, p.packet_id))

def trial(name, f):
    buf = io.StringIO()
    try:
        with contextlib.redirect_stdout(buf):
            r = f()
        print(name, '->', r)
    except BaseException as e:
        print(name, 'RAISED', type(e).__name__, e)

def sp():
    env = Environment(); s = SP(env, 8000, {0: 2, 1: 1}); r = Rec(env); s.out = r
    for i,(f,sz) in enumerate([(0,100),(0,100),(1,100),(1,100)]):
        s.put(Packet(0, sz, i, flow_id=f))
    env.run(until=100); return r.log
trial('SP H,H,L,L', sp)

def vc():
    env = Environment(); s = VC(env, 8000, {0: 1, 1: 1}); r = Rec(env); s.out = r
    s.put(Packet(0, 100, 0, flow_id=0))
    env.run(until=100); return r.log
trial('VC single', vc)

def wfq_first():
    env = Environment(); s = WFQ(env, 8000, {0: 1, 1: 1}); r = Rec(env); s.out = r
    s.put(Packet(0, 1000, 0, flow_id=0)); s.put(Packet(0, 100, 1, flow_id=1))
    env.run(until=100); return r.log
trial('WFQ first-of-busy-period stamp', wfq_first)

def wfq_class():
    env = Environment(); s = WFQ(env, 8000, {7: 1}, flow2class=lambda f: 7); r = Rec(env); s.out = r
    s.put(Packet(0, 100, 0, flow_id=0)); s.put(Packet(0, 100, 1, flow_id=1)); s.put(Packet(0, 100, 2, flow_id=1))
    env.run(until=100); return r.log
trial('WFQ flow2class', wfq_class)

def wfq_ties():
    env = Environment(); s = WFQ(env, 8000, {i:1 for i in range(6)}); r = Rec(env); s.out = r
    def arr(env):
        yield env.timeout(1)
        for i in range(6): s.put(Packet(0, 100, i, flow_id=i))
    s.put(Packet(0,100,99,flow_id=0))
    env.process(arr(env))
    env.run(until=100); return r.log
trial('WFQ ties', wfq_ties)

def port_lim():
    env = Environment(); p = Port(env, 8000, 2, False, 'p1'); r = Rec(env); p.out = r
    for i in range(6): p.put(Packet(0,100,i))
    env.run(until=100); return (p.packets_dropped, len(r.log), p.byte_size)
trial('Port pkt limit 2, 6 arrivals', port_lim)
def port_none():
    env = Environment(); p = Port(env, 8000, None, False, 'p1'); r = Rec(env); p.out = r
    p.put(Packet(0,100,0)); env.run(until=100); return (p.packets_dropped, len(r.log))
trial('Port qlimit None', port_none)
def port_stamp():
    env = Environment(); p = Port(env, 8000, 10, False, 'p1'); r = Rec(env); p.out = r
    pk = Packet(0,100,0); p.put(pk); return pk.perhop_time
trial('Port stamp', port_stamp)
def port_rate0():
    env = Environment(); p = Port(env, 0, 1000, True, 'p1'); r = Rec(env); p.out = r
    p.put(Packet(0,100,0)); env.run(until=10); return (p.byte_size, len(r.log))
trial('Port rate0 byte_size', port_rate0)

def trtb():
    env = Environment(); t = TwoRateTokenBucket(env, 8000, 1000, 16000, 1000); r = Rec(env); t.out = r
    t.put(Packet(0,100,0)); env.run(until=10); return r.log
trial('TwoRate single', trtb)

def fib_empty():
    r = Rec(None); d = FIBDemux(fib={}, outs=[r], default_out=r)
    class E: now=0
    r.env=E
    d.put(Packet(0,100,0,flow_id=3)); return r.log
trial('FIBDemux empty fib', fib_empty)

def hub_noports():
    env = Environment(); a=Rec(env); b=Rec(env)
    class O: pass
    h = Hub(env, [a,b]); return 'ok'
trial('Hub(env, endpoints)', hub_noports)

def timer_scalar():
    env = Environment(); log=[]
    Timer(env, 5, lambda x: log.append((env.now,x)), args=7); env.run(until=20); return log
trial('Timer scalar arg', timer_scalar)
def timer_selfrestart():
    env = Environment(); log=[]
    def cb(): 
        log.append(env.now)
        if len(log)<3: t.restart(2)
    t = Timer(env, 5, cb); env.run(until=20); return log
trial('Timer restart from callback', timer_selfrestart)
def timer_window():
    env = Environment(); log=[]
    t = Timer(env, 5, lambda: log.append(env.now))
    def other(env):
        yield env.timeout(5)
        t.restart(2)
    env.process(other(env)); env.run(until=20); return log
trial('Timer restart at expiry instant by other (after fire)', timer_window)
