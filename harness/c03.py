"""C03 - runs are reproducible and unaffected by where they are stopped and resumed."""
import hashlib
import json
import os
import subprocess
import sys

from mc import kclient as KC
from mc.explore import Result, Chooser, explore_all
from mc.kclient import INF

from onl.sim import Environment
from onl.sim.core import EmptySchedule

PROPERTY = "C03"
CLAUSES = ["C03.split", "C03.until_num", "C03.until_ev", "C03.repro"]
RULE = ("every kernel program of <= Dp executed instructions (timeouts, shared event, join, interrupt, spawn) and 8 fixed "
        "network scenarios (incl. TCP with timers, scheduler/port monitors, string class ids), each under every plan of <= S stops drawn from {step(), run(until=t) for every due instant t and "
        "t+1/4 (and one t<=now that must be refused), run(until=e) for every shared event / process that succeeds in the "
        "uninterrupted run} followed by run() to the end; non-trivial = a stop coincided with a due occurrence or an "
        "until-event had a waiter registered after the run() call; distinct = distinct (program, plan)")
ASSUMPTIONS = [
    "PYTHONHASHSEED cannot be enumerated: trace digests of the uninterrupted runs are compared across fresh interpreter "
    "processes for 13 seeds (11 fixed, 2 VERIF_SEED-derived), in interpreters started with -O and -OO, and twice inside one process (a fixed finite comparison)",
    "stopping on an event that fails, or that is never triggered, is outside the statement and not driven",
]
OPS = ["ret", ("T", 0), ("T", 1), ("T", 2), ("W", 0, True), ("S", 0), ("J", True), "I", "Sp"]
# delays that are not binary fractions: now + (t - now) != t in floating point for many (now, t)
OPS_F = ["ret", ("T", 0), ("T", 0.2), ("T", 0.7), ("W", 0, True), ("S", 0), "I"]
# programs that crash (an unhandled failure ends run() with that exception) and a driver that carries on afterwards
OPS_C = ["ret", "raise", ("T", 0), ("T", 1), ("W", 0, True), ("W", 0, False), ("S", 0), ("F", 0), ("J", False)]
# exception objects as the VALUE of a successful event
OPS_X = ["ret", ("T", 0), ("T", 1), ("W", 0, True), ("SX", 0), ("S", 0), ("J", True)]
# occurrences dated at infinity (an end-of-time reporter): run() must process them like step() does
OPS_I = ["ret", ("T", 0), ("T", 1), ("T", float("inf")), ("W", 0, True), ("S", 0)]
NSCEN = 9


def plan(tier, seed):
    quick = tier == "quick"
    cfgs = [dict(kind="k", depth=4, S=2)]
    if not quick:
        cfgs = [dict(kind="k", depth=5, S=2), dict(kind="k", depth=4, S=3)]
    cfgs.append(dict(kind="k", depth=3 if quick else 4, S=2 if quick else 3, ops="F", off=0.1))
    cfgs.append(dict(kind="k", depth=4, S=2, ops="X"))
    cfgs.append(dict(kind="k", depth=4, S=2, ops="I"))
    cfgs.append(dict(kind="k", depth=3 if quick else 4, S=2, init=-3))     # a clock that starts below zero
    cfgs.append(dict(kind="crashy", depth=4 if quick else 5, S=2))
    for sc in range(NSCEN):
        cfgs.append(dict(kind="net", scenario=sc, S=2 if quick else 3))
    return {"cfgs": cfgs, "budget": None,
            "bound": "kernel programs Dp<=%s with plans of <=%s stops; %d network scenarios with plans of <=%d stops" % (
                "4" if quick else "5 (S=2) / 4 (S=3)", "2" if quick else "2/3", NSCEN, 2 if quick else 3)}


class Replayer:
    """second run of the same program: answers the recorded choices, 0 beyond them"""

    def __init__(self, choices):
        self.c = list(choices); self.i = 0

    def choose(self, n, label=None, free=False):
        v = self.c[self.i] if self.i < len(self.c) else 0
        self.i += 1
        return v if v < n else 0


def drive_on(k, stops, crashes):
    """executes the stop plan and then run() until nothing is left; a run() that ends with an application exception is
    recorded and the driver carries on (a stale stop left behind by an aborted run only makes run() return once more)"""
    env = k.env

    def attempt(fn):
        try:
            fn()
        except (KC.Err, KC.Abort) as e:
            crashes.append((env.now, type(e).__name__, e.args))
    for st in stops:
        if st[0] == "t":
            if st[1] > env.now:
                attempt(lambda: env.run(until=st[1]))
        else:
            target = k.events[st[1]]
            if not target.processed:
                try:
                    attempt(lambda: env.run(until=target))
                except RuntimeError:
                    pass        # the schedule ran dry before the event was triggered: reported as such, nothing lost
    n = 0
    while env.peek() < INF and n < 1000:
        n += 1
        attempt(env.run)


def exec_crashy(ch, cfg):
    res = Result()
    base = KC.K(ch, OPS_C, cfg["depth"], reaction=False)
    prog_len = None
    bcr = []
    try:
        drive_on(base, [], bcr)
    except BaseException as e:  # noqa
        res.digest = ("base-raised", type(e).__name__)
        res.ev("C03.split")
        res.bad("C03.split", "carrying-on-after-a-crash-raised-%s" % type(e).__name__, repr(e)[:100])
        return res
    prog = list(ch.choices)
    blog = [x[2:] for x in base.log]
    dues = sorted(set(t[1] for t in base.trig if t[1] > 0))
    menu = [("t", t) for t in dues] + [("t", t + 0.25) for t in dues]
    if base.outcome.get(("ev", 0), (False,))[0]:
        menu.append(("ev", 0))       # (stopping on an event that fails or is never triggered is outside the statement)
    stops = []
    for i in range(cfg["S"]):
        c = ch.choose(len(menu) + 1, lambda c: "stop %s" % ("none" if c == 0 else (menu[c - 1],)), free=True)
        if c == 0:
            break
        stops.append(menu[c - 1])
    res.digest = (tuple(prog), tuple(stops))
    if not stops:
        return res
    res.nontrivial = bool(bcr)
    k = KC.K(Replayer(prog), OPS_C, cfg["depth"], reaction=False)
    cr = []
    res.ev("C03.split")
    try:
        drive_on(k, stops, cr)
    except BaseException as e:  # noqa
        res.bad("C03.split", "split-run-raised-%s" % type(e).__name__, "plan %r: %r" % (stops, e))
        return res
    got = [x[2:] for x in k.log]
    if got != blog or cr != bcr:
        i = 0
        while i < min(len(got), len(blog)) and got[i] == blog[i]:
            i += 1
        sh = "process-lost" if len(got) < len(blog) else ("process-duplicated" if len(got) > len(blog) else ("trace-reordered" if got != blog else "crashes-differ"))
        res.bad("C03.split", "%s-after-%s(crashing-program)" % (sh, "+".join(sorted(set(s[0] for s in stops)))),
                "plan %r: first difference at entry %d: split %r vs single %r; crashes %r vs %r" % (
                    stops, i, got[i] if i < len(got) else None, blog[i] if i < len(blog) else None, cr, bcr))
    return res


def execute(ch, cfg):
    if cfg["kind"] == "net":
        return exec_net(ch, cfg)
    if cfg["kind"] == "crashy":
        return exec_crashy(ch, cfg)
    res = Result()
    ops = {"F": OPS_F, "X": OPS_X, "I": OPS_I}.get(cfg.get("ops"), OPS)
    init = cfg.get("init", 0)
    off = cfg.get("off", 0.25)
    base = KC.K(ch, ops, cfg["depth"], reaction=False, env=Environment(init)).run()
    prog = list(ch.choices)
    blog = [x[2:] for x in base.log]
    bstep = [x[1] for x in base.log]
    if base.crashed is not None:
        res.digest = ("crash", tuple(prog))
        return res
    dues = sorted(set(t[1] for t in base.trig if t[1] > init))
    menu = [("step",)] + [("t", t) for t in dues] + [("t", t + off) for t in dues] + [("t", init)]
    targets = []
    if ("ev", 0) in base.processed and base.outcome.get(("ev", 0), (None,))[0]:
        targets.append(("ev", 0))
    for pid in range(len(base.procs)):
        if ("p", pid) in base.processed and base.outcome[("p", pid)][0]:
            targets.append(("p", pid))
    menu += [("ev", x) for x in targets]
    if len(targets) >= 2:
        menu += [("cond", "any", targets[0], targets[1]), ("cond", "all", targets[0], targets[1])]
    stops = []
    for i in range(cfg["S"]):
        c = ch.choose(len(menu) + 1, lambda c: "stop %s" % ("none" if c == 0 else (menu[c - 1],)), free=True)
        if c == 0:
            break
        stops.append(menu[c - 1])
    res.digest = (tuple(prog), tuple(stops))
    if not stops:
        return res
    k = KC.K(Replayer(prog), ops, cfg["depth"], reaction=False, env=Environment(init))
    env = k.env
    try:
        for st in stops:
            if st[0] == "step":
                try:
                    env.step()
                except EmptySchedule:
                    pass
            elif st[0] == "t":
                t = st[1]
                res.ev("C03.until_num")
                if t <= env.now:
                    try:
                        env.run(until=t)
                        res.bad("C03.until_num", "until<=now-accepted", "run(until=%r) at now=%r" % (t, env.now))
                        return res
                    except ValueError:
                        pass
                else:
                    if any(x[0] == t for x in blog):
                        res.nontrivial = True
                    env.run(until=t)
                    exp = [x for x in blog if x[0] < t]
                    got = [x[2:] for x in k.log]
                    if env.now != t:
                        res.bad("C03.until_num", "now!=until-after-return", "run(until=%r) returned at %r" % (t, env.now))
                        return res
                    if got != exp:
                        sh = "occurrence-due-at-or-after-t-took-effect" if len(got) > len(exp) else "occurrence-due-before-t-missing"
                        res.bad("C03.until_num", sh, "run(until=%r): %d log entries, uninterrupted run has %d before t" % (t, len(got), len(exp)))
                        return res
            elif st[0] == "cond":
                # stop on a condition built over two events: run() must return the condition's value once it is processed
                parts = []
                for lab in st[2:]:
                    parts.append(k.events[lab[1]] if lab[0] == "ev" else (k.procs[lab[1]] if lab[1] < len(k.procs) else None))
                if any(p is None for p in parts):
                    continue
                res.ev("C03.until_ev")
                cond = env.any_of(parts) if st[1] == "any" else env.all_of(parts)
                try:
                    v = env.run(until=cond)
                except RuntimeError as e:
                    res.bad("C03.until_ev", "until-condition-reported-as-never-triggered", "%r: %s" % (st, str(e)[:80]))
                    return res
                want_keys = [p for p in parts if p.processed]
                if v is None or not hasattr(v, "keys") or list(v.keys()) != want_keys or (st[1] == "all" and len(want_keys) != 2) or not want_keys:
                    res.bad("C03.until_ev", "until-condition-returned-a-wrong-value", "run(until=%s_of %r) returned %r" % (st[1], st[2:], v))
                    return res
                if any(v[p] != base.outcome[lab][1] for p, lab in zip(parts, st[2:]) if p in want_keys):
                    res.bad("C03.until_ev", "until-condition-returned-a-wrong-value", "run(until=%s_of %r): values %r" % (st[1], st[2:], v.todict()))
                    return res
            else:
                lab = st[1]
                target = k.events[lab[1]] if lab[0] == "ev" else (k.procs[lab[1]] if lab[1] < len(k.procs) else None)
                if target is None:
                    continue      # the process does not exist yet at this point of the split run
                res.ev("C03.until_ev")
                already = target.processed
                # a waiter that registers after the run() call?
                try:
                    v = env.run(until=target)
                except RuntimeError as e:
                    res.bad("C03.until_ev", "until-event-reported-as-never-triggered", "%r: %s" % (lab, str(e)[:80]))
                    return res
                want = base.outcome[lab][1]
                if v != want:
                    res.bad("C03.until_ev", "wrong-value-returned", "run(until=%r) returned %r, event value %r" % (lab, v, want))
                    return res
                if not target.processed:
                    res.bad("C03.until_ev", "returned-before-the-event-was-processed", "%r" % (lab,))
                    return res
                if not already:
                    pstep = base.processed[lab][0]
                    exp = [x for x, s in zip(blog, bstep) if s <= pstep]
                    got = [x[2:] for x in k.log]
                    regs = [x for x in blog if x[1] == "probe" and x[2] == lab]
                    if regs and len(regs[0][3]) >= 2:
                        res.nontrivial = True
                    if got != exp:
                        sh = "later-occurrences-took-effect-before-return" if len(got) > len(exp) else "waiters-of-the-until-event-not-resumed-at-return"
                        res.bad("C03.until_ev", sh, "run(until=%r): %d log entries, uninterrupted run has %d up to the event's processing" % (lab, len(got), len(exp)))
                        return res
        n = 0
        while env.peek() < INF and n < 10000:
            env.step()
            n += 1
        env.run()           # whatever is left (occurrences dated at infinity), until the schedule is dry
        # an environment that has run dry is not dead: what is started now runs
        mark = []
        t_end = env.now

        def late():
            yield env.timeout(1)
            mark.append(env.now)
        env.process(late())
        env.run()
        if mark != [t_end + 1]:
            res.ev("C03.split")
            res.bad("C03.split", "nothing-runs-after-the-schedule-ran-dry", "plan %r: a process started at t=%r after run() had returned logged %r" % (stops, t_end, mark))
            return res
    except BaseException as e:  # noqa
        res.ev("C03.split")
        res.bad("C03.split", "split-run-raised-%s" % type(e).__name__, "plan %r: %r" % (stops, e))
        return res
    res.ev("C03.split")
    got = [x[2:] for x in k.log]
    if got != blog:
        i = 0
        while i < min(len(got), len(blog)) and got[i] == blog[i]:
            i += 1
        kinds = sorted(set(s[0] for s in stops))
        sh = "process-lost" if len(got) < len(blog) else ("process-duplicated" if len(got) > len(blog) else "trace-reordered")
        res.bad("C03.split", "%s-after-%s" % (sh, "+".join(kinds)), "plan %r: first difference at entry %d: split %r vs single %r" % (
            stops, i, got[i] if i < len(got) else None, blog[i] if i < len(blog) else None))
    return res


# ---- network scenarios ------------------------------------------------------------------------------
trace_extra = []      # functions returning additional trace entries (monitor samples) to append when a run is over


def finish_trace(trace):
    for f in trace_extra:
        trace.extend(f())
    return trace


def scenario(sc, env):
    """builds scenario `sc` on env; returns the trace list that taps append to"""
    from onl.packet import DistPacketGenerator, PacketSink
    from onl.netdev import Port, Wire, TokenBucket, Hub
    from onl.scheduler import WFQ, DRR
    trace = []
    extra = trace_extra
    del extra[:]

    class Tap:
        def __init__(self, name, nxt=None):
            self.name = name; self.nxt = nxt; self.element_id = name; self.out = None

        def put(self, p):
            trace.append((env.now, self.name, p.packet_id, p.flow_id, p.size, p.time))
            if self.nxt:
                self.nxt.put(p)

    def gen(name, gaps, sizes, flow, d0=0, finish=6):
        g = iter(gaps * 20)
        s = iter(sizes * 20)
        return DistPacketGenerator(env, name, lambda: next(g), lambda: next(s), initial_delay=d0, finish=finish, flow_id=flow)
    sink = PacketSink(env)
    if sc == 0:
        pg = gen("g0", [1, 0, 2], [1, 2], 0)
        port = Port(env, 8, 3, True, "p")
        pg.out = Tap("in", port); port.out = Tap("out", sink)
    elif sc == 1:
        a = gen("g0", [1, 1, 0], [2, 1], 0); b = gen("g1", [0, 2, 1], [1, 2], 1, d0=1)
        w = WFQ(env, 8, {0: 1, 1: 2})
        a.out = Tap("in0", w); b.out = Tap("in1", w); w.out = Tap("out", sink)
    elif sc == 2:
        pg = gen("g0", [0, 1, 2], [2, 1, 4], 0)
        tb = TokenBucket(env, 8, 2, peak=16)
        wire = Wire(env, lambda: 1)
        pg.out = Tap("in", tb); tb.out = Tap("mid", wire); wire.out = Tap("out", sink)
    elif sc == 3:
        a = gen("g0", [1, 0, 1], [1000, 2000], 0); b = gen("g1", [0, 1, 2], [3000, 1000], 1)
        d = DRR(env, 8000, {0: 1, 1: 2})
        a.out = Tap("in0", d); b.out = Tap("in1", d); d.out = Tap("out", sink)
    elif sc == 6:
        # monitors keep sampling on their own clock whatever else is (not) pending; samples are part of the trace
        from onl.scheduler import Monitor
        from onl.netdev import PortMonitor
        a = gen("g0", [1, 0, 2], [2, 1], 0, finish=4); b = gen("g1", [0, 2, 1], [1, 2], 1, finish=4)
        w = WFQ(env, 8, {0: 1, 1: 2})
        port = Port(env, 16, 3, False, "p")
        a.out = Tap("in0", w); b.out = Tap("in1", w); w.out = Tap("mid", port); port.out = Tap("out", sink)
        mon = Monitor(env, w, lambda: 0.7, service_included=True)
        extra.append(lambda: [("mon", tuple(sorted((k, tuple(v)) for k, v in mon.sizes.items())), mon.action.is_alive)])
    elif sc == 8:
        from onl.netdev import PortMonitor
        a = gen("g0", [1, 0, 2], [2, 1], 0, finish=4)
        port = Port(env, 8, 3, False, "p")
        a.out = Tap("in", port); port.out = Tap("out", sink)
        pm = PortMonitor(env, port, lambda: 0.9, pkt_in_service_included=False)
        pmp = env.process(pm.run())
        extra.append(lambda: [("pmon", tuple(pm.sizes), tuple(pm.sizes_byte), pmp.is_alive)])
    elif sc == 7:
        # class ids that are strings: nothing may depend on their hash order
        names = {0: "voice", 1: "video", 2: "bulk"}
        gens = [gen("g%d" % f, [1, 0, 1], [1000, 2000, 1500], f, finish=5) for f in range(3)]
        d = DRR(env, 8000, {"voice": 1, "video": 2, "bulk": 3}, flow2class=lambda f: names[f])
        w = WFQ(env, 8000, {"voice": 1, "video": 2, "bulk": 3}, flow2class=lambda f: names[f])
        for g in gens:
            g.out = Tap("in", d)
        d.out = Tap("mid", w); w.out = Tap("out", sink)
    elif sc == 5:
        from onl.packet import TCPPacketGenerator, TCPSink, TCPReno
        from onl.packet.tcp_generator import Flow
        flow = Flow(flow_id=0, src="s", dst="d", start_time=0, finish_time=10 ** 9, size=5 * 512)
        snd = TCPPacketGenerator(env, flow=flow, cc=TCPReno(), element_id="s", rtt_estimate=0.5)   # RTO < RTT: timers fire too
        rcv = TCPSink(env)
        down, up = Wire(env, lambda: 1), Wire(env, lambda: 1)
        snd.out = Tap("data", down); down.out = Tap("rx", rcv); rcv.out = Tap("ack", up); up.out = Tap("ackrx", snd)
    else:
        eps = [Tap("ep%d" % i) for i in range(3)]
        wires = [Wire(env, lambda: 1), None, Wire(env, lambda: 2)]
        hub = Hub(env, eps, wires)
        pg = gen("ep0", [1, 1, 0], [1], 0, finish=4)
        pg.out = Tap("tx", hub)
    return trace


def exec_net(ch, cfg):
    off = 0.25
    res = Result()
    env = Environment()
    trace = scenario(cfg["scenario"], env)
    env.run(until=40)
    nbase = len(trace)
    base = list(finish_trace(trace))
    alld = sorted(set(x[0] for x in base[:nbase]))
    # early instants, the last instants of the traffic, and one instant long after the network has gone idle
    dues = sorted(set(alld[:5] + alld[-2:] + [30]))
    menu = [("step",)] + [("t", t) for t in dues if t > 0] + [("t", t + off) for t in dues] + [("t", 0)]
    stops = []
    for i in range(cfg["S"]):
        c = ch.choose(len(menu) + 1, lambda c: "stop %s" % ("none" if c == 0 else (menu[c - 1],)), free=True)
        if c == 0:
            break
        stops.append(menu[c - 1])
    res.digest = (cfg["scenario"], tuple(stops))
    if not stops:
        return res
    env = Environment()
    trace = scenario(cfg["scenario"], env)
    tag = "scenario%d" % cfg["scenario"]
    try:
        for st in stops:
            if st[0] == "step":
                try:
                    env.step()
                except EmptySchedule:
                    pass
            else:
                t = st[1]
                res.ev("C03.until_num")
                if t <= env.now:
                    try:
                        env.run(until=t)
                        res.bad("C03.until_num", "until<=now-accepted", "%s run(until=%r) at now=%r" % (tag, t, env.now))
                        return res
                    except ValueError:
                        pass
                else:
                    if any(x[0] == t for x in base[:nbase]):
                        res.nontrivial = True
                    env.run(until=t)
                    exp = [x for x in base[:nbase] if x[0] < t]
                    if env.now != t or trace != exp:
                        res.bad("C03.until_num", "network-trace-at-return-differs", "%s run(until=%r): now=%r, %d taps vs %d" % (tag, t, env.now, len(trace), len(exp)))
                        return res
        if env.now < 40:
            env.run(until=40)
        finish_trace(trace)
    except BaseException as e:  # noqa
        res.bad("C03.split", "split-run-raised-%s" % type(e).__name__, "%s plan %r: %r" % (tag, stops, e))
        return res
    res.ev("C03.split")
    if trace != base:
        res.bad("C03.split", "network-trace-differs-after-split", "%s plan %r: %d taps vs %d" % (tag, stops, len(trace), len(base)))
    return res


# ---- Space B: same trace in other interpreter processes / hash seeds ------------------------------------
def digests(depth=3):
    """digest of the uninterrupted trace of every kernel program of depth <= `depth` and of every scenario"""
    out = []

    def ex(ch, cfg):
        k = KC.K(ch, OPS + [("T", 0.5), "raise", ("F", 0)], depth, reaction=False).run()
        r = Result()
        r.digest = hashlib.sha1(repr((tuple(x[2:] for x in k.log), k.crashed and k.crashed[:3])).encode()).hexdigest()
        out.append((tuple(ch.choices), r.digest))
        return r
    explore_all(ex, [dict()], workers=1, selftest=0)
    out.sort()
    h = hashlib.sha1(repr(out).encode())
    for sc in range(NSCEN):
        env = Environment()
        tr = scenario(sc, env)
        env.run(until=40)
        h.update(repr(finish_trace(tr)).encode())
    # REDPort with the program-seeded global random source and a string element id: same drops under every hash seed
    import random as _random
    from onl.netdev.red_port import REDPort
    from onl.packet import Packet as _P, PacketSink as _S
    from onl.netdev import Hub as _Hub, Wire as _Wire
    _random.seed(20240229)
    env = Environment()
    red = REDPort(env, 8, 3, 1, 0.5, "uplink-red", 5, weight_factor=1)
    got = []
    red.out = type("T", (), {"put": staticmethod(lambda p: got.append((env.now, p.packet_id)))})()

    def burst():
        for i in range(60):
            red.put(_P(env.now, 1, i, flow_id=i % 3))
            if i % 4 == 3:
                yield env.timeout(1)
    env.process(burst())
    env.run(until=200)
    h.update(repr((got, red.packets_dropped)).encode())
    # two schedulers of one kind in one program, both with parked head-of-line packets, run twice
    from onl.scheduler import DRR as _DRR
    for _ in range(2):
        env = Environment()
        outl = []
        try:
            d1 = _DRR(env, 8000, {0: 1, 1: 2}); d2 = _DRR(env, 8000, {0: 1, 1: 2})
            d1.out = d2
            d2.out = type("T", (), {"put": staticmethod(lambda p: outl.append((env.now, p.flow_id, p.packet_id)))})()

            def feed():
                for i, (f, sz) in enumerate([(0, 2000), (1, 3000), (0, 3000), (1, 1000), (0, 2000), (1, 4000)]):
                    d1.put(_P(env.now, sz, i, flow_id=f))
                    if i % 2:
                        yield env.timeout(1)
            env.process(feed())
            env.run(until=60)
        except Exception as e:  # noqa
            outl.append(("raised", type(e).__name__))
        h.update(repr(outl).encode())
    # a hub that is built incrementally (default argument lists must not be shared between hubs / runs)
    for _ in range(2):
        env = Environment()
        seen = []

        class St:
            def __init__(self, name):
                self.element_id = name; self.out = None

            def put(self, p):
                seen.append((env.now, self.element_id, p.packet_id))
        try:
            hub = _Hub(env)
            sts = [St("st%d" % i) for i in range(3)]
            for i, st in enumerate(sts):
                hub.add_endpoint(st, _Wire(env, lambda: 1) if i != 1 else None)
            hub.put(_P(0, 1, 7, src="st0"))
            env.run(until=5)
        except Exception as e:  # noqa - a program that behaves differently the second time is exactly what is looked for
            seen.append(("raised", type(e).__name__))
        h.update(repr(seen).encode())
    # hash-ordered containers in scope
    from onl.topo import FatTree
    ft = FatTree(4)
    h.update(repr(sorted(ft.hosts)).encode())
    h.update(repr(list(ft.topo.nodes())[:40]).encode())
    return len(out), h.hexdigest()


def post(tier, seed, stats):
    res = {}
    here = os.path.dirname(os.path.dirname(os.path.abspath(__file__)))
    n1, d1 = digests()
    n2, d2 = digests()
    seeds = [0, 1, 2, 3, 5, 8, 13, 21, 4242, 65537, 99991, (seed * 7919 + 13) % 100000, (seed * 104729 + 7) % 1000003]
    outs = {}
    procs = {}
    # ... and two interpreters started with -O / -OO (assert statements and docstrings stripped): the same program
    seeds = seeds + ["-O", "-OO"]
    for hs in seeds:
        envv = dict(os.environ)
        envv["PYTHONHASHSEED"] = str(hs) if isinstance(hs, int) else "0"
        envv.pop("PYTHONOPTIMIZE", None)
        procs[hs] = subprocess.Popen([sys.executable] + ([hs] if isinstance(hs, str) else []) + ["-c",
                                      "import sys; sys.path.insert(0, %r); sys.path.insert(0, %r); import io, contextlib\n"
                                      "from harness import c03\n"
                                      "with contextlib.redirect_stdout(io.StringIO()): r = c03.digests()\n"
                                      "print(r[0], r[1])" % (os.environ.get("ONL_REPO", "/repo"), here)],
                                     env=envv, stdout=subprocess.PIPE, stderr=subprocess.PIPE, text=True, cwd=here)
    for hs in seeds:
        o, e = procs[hs].communicate()
        outs[hs] = o.strip() or ("ERR " + e[-200:])
    want = "%d %s" % (n1, d1)
    bad = [hs for hs in seeds if outs[hs] != want]
    stats.clauses["C03.repro"] = stats.clauses.get("C03.repro", 0) + n1 * (len(seeds) + 1)
    if (n1, d1) != (n2, d2):
        stats.viol[("C03.repro", "same-process-rerun-differs")] = [1, (-1, [], "two runs in one process gave different digests")]
    elif bad:
        stats.viol[("C03.repro", "trace-differs-under-another-hash-seed-or-process")] = [len(bad), (-1, [], "PYTHONHASHSEED / interpreter flag %r: %r vs %r" % (bad, outs[bad[0]][:60], want[:60]))]
    res["repro"] = {"programs_and_scenarios": n1 + NSCEN, "hash_seeds": seeds, "digest": d1}
    res["executions"] = n1 * (len(seeds) + 2)
    return res
