"""Check runner: explores a harness, classifies violations against known_findings.txt,
writes evidence and replay artefacts, prints VIOLATION / KNOWN-FINDING lines."""
import hashlib
import importlib
import json
import os
import sys
import time

VERIF = os.path.dirname(os.path.dirname(os.path.abspath(__file__)))
REPO = os.environ.get("ONL_REPO", "/repo")
if sys.path[0] != REPO:
    sys.path.insert(0, REPO)

from . import explore  # noqa: E402

HARNESS = {
}


def register(pid, module):
    HARNESS[pid] = module


for _i in range(1, 21):
    HARNESS["C%02d" % _i] = "harness.c%02d" % _i


def load_known():
    """known_findings.txt lines:
       known: property=<id> clause=<clause> shape=<shape> :: <what fails>
       fixed: property=<id> <commit> <what failed>
    Only `known:` lines suppress anything, and only the exact (property, clause, shape)."""
    known = {}
    path = os.path.join(VERIF, "known_findings.txt")
    if not os.path.exists(path):
        return known
    for line in open(path):
        line = line.strip()
        if not line.startswith("known:"):
            continue
        body, _, what = line[len("known:"):].partition("::")
        f = {}
        for tok in body.split():
            if "=" in tok:
                k, v = tok.split("=", 1)
                f[k] = v
        if "property" in f and "clause" in f and "shape" in f:
            known[(f["property"], f["clause"], f["shape"])] = what.strip()
    return known


def _jsonable(x):
    if isinstance(x, (list, tuple)):
        return [_jsonable(v) for v in x]
    if isinstance(x, dict):
        return {str(k): _jsonable(v) for k, v in x.items()}
    if isinstance(x, (int, float, str, bool)) or x is None:
        return x
    return repr(x)


def describe(mod, cfg, choices, budget):
    ch = explore.Chooser(choices, budget, record=True)
    real = sys.stdout
    sys.stdout = open(os.devnull, "w")
    try:
        res = mod.execute(ch, cfg)
    finally:
        sys.stdout.close()
        sys.stdout = real
    return ch, res


def main(argv=None):
    import argparse
    ap = argparse.ArgumentParser()
    ap.add_argument("property")
    ap.add_argument("--tier", default=os.environ.get("VERIF_TIER", "quick"), choices=["quick", "thorough"])
    ap.add_argument("--replay")
    ap.add_argument("--workers", type=int, default=0)
    ap.add_argument("--no-evidence", action="store_true")
    ap.add_argument("--evidence-dir", default=os.path.join(VERIF, "evidence"))
    a = ap.parse_args(argv)
    pid = a.property
    seed = int(os.environ.get("VERIF_SEED", "0") or 0)
    mod = importlib.import_module(HARNESS[pid])
    mod.execute = explore.guarded(explore.with_debug(explore.with_long(mod.execute)), pid)
    if a.replay:
        return replay(mod, pid, a.replay)
    t0 = time.time()
    plan = mod.plan(a.tier, seed)           # {'cfgs': [...], 'budget': int|None, 'bound': str}
    cfgs = plan["cfgs"]
    budget = plan.get("budget")
    limit = float(os.environ.get("VERIF_MAX_S", "0") or 0) or (1200.0 if a.tier == "quick" else 6 * 3600.0)
    try:
        stats, mism = explore.explore_all(mod.execute, cfgs, budget=budget, workers=a.workers or None, deadline=t0 + limit)
    except explore.Deadline as e:
        # on the unchanged tree every check finishes far below the limit; a tree on which the exploration explodes
        # (e.g. a timer that fires without end) behaves differently from the verified one
        print("VIOLATION property=%s replay=%s clause=%s.terminates shape=exploration-exceeded-%ds :: %s" % (pid, "none", pid, limit, e))
        known = load_known()
        for (clause, shape), (cnt, wit) in sorted(getattr(getattr(e, "stats", None), "viol", {}).items())[:6]:
            if (pid, clause, shape) not in known:
                print("VIOLATION property=%s replay=none clause=%s shape=%s :: (found before the limit, not re-confirmed) %s" % (pid, clause, shape, wit[2][:200]))
        return 1
    extra = {}
    if hasattr(mod, "post"):
        # optional second phase owned by the harness (e.g. cross-process comparisons)
        try:
            extra = mod.post(a.tier, seed, stats) or {}
        except Exception as e:  # noqa
            stats.viol[("%s.noraise" % pid, "unexpected-%s-in-second-phase" % type(e).__name__)] = [1, (-1, [], repr(e)[:300])]
    wall = time.time() - t0
    known = load_known()
    rc = 0
    if mism:
        # the very same program, run twice in this process, gave two different results: state survives between runs
        # (class-level or module-level data, mutable default arguments).  Every property presupposes reproducible runs.
        print("VIOLATION property=%s replay=none clause=%s.deterministic shape=same-execution-run-twice-in-one-process-differs :: configurations %r" % (pid, pid, [m[0] for m in mism[:3]]))
        rc = 1
    # confirm each violation witness by replaying it twice in this process
    new, seen_known = [], []
    for (clause, shape), (cnt, wit) in sorted(stats.viol.items()):
        cfg_idx, choices, msg = wit[:3]
        ok = True
        if cfg_idx >= 0:
            for _ in range(2):
                ch, res = describe(mod, cfgs[cfg_idx], choices, budget)
                if not any(v[0] == clause and v[1] == shape for v in res.violations):
                    ok = False
        if not ok:
            # seen during exploration but not when its choice list is replayed alone: the outcome depends on what ran before in
            # the same process (state leaking between runs) - reported, with that caveat in the shape
            shape = shape + ":only-after-other-runs-in-the-same-process"
        if (pid, clause, shape) in known:
            seen_known.append((clause, shape, cnt, known[(pid, clause, shape)]))
        else:
            new.append((clause, shape, cnt, wit))
    for (clause, shape, cnt, what) in seen_known:
        print("KNOWN-FINDING: property=%s clause=%s shape=%s (%d executions) %s" % (pid, clause, shape, cnt, what))
    os.makedirs(os.path.join(VERIF, "replays"), exist_ok=True)
    for (clause, shape, cnt, wit) in new:
        cfg_idx, choices, msg = wit[:3]
        cfg = cfgs[cfg_idx] if cfg_idx >= 0 else None
        labels = None
        if cfg_idx >= 0:
            ch, _ = describe(mod, cfg, choices, budget)
            labels = _jsonable(ch.labels)
        rec = {"property": pid, "clause": clause, "shape": shape, "message": msg, "executions_with_this_shape": cnt,
               "tier": a.tier, "cfg": _jsonable(cfg), "choices": choices, "budget": budget, "decoded": labels,
               "replay": "/venv/bin/python run.py %s --replay <this file>" % pid}
        h = hashlib.sha1(("%s|%s|%s" % (pid, clause, shape)).encode()).hexdigest()[:10]
        path = os.path.join(VERIF, "replays", "%s-%s.json" % (pid, h))
        with open(path, "w") as f:
            json.dump(rec, f, indent=1)
        print("VIOLATION property=%s replay=%s clause=%s shape=%s :: %s" % (pid, path, clause, shape, msg[:300]))
        rc = max(rc, 1)
    # evidence
    samples = []
    for (cfg_idx, choices) in stats.samples[:4]:
        ch, _ = describe(mod, cfgs[cfg_idx], choices, budget)
        samples.append({"cfg": _jsonable(cfgs[cfg_idx]), "choices": choices, "decoded": _jsonable(ch.labels)})
    if not samples and cfgs:
        ch, _ = describe(mod, cfgs[0], [], budget)
        samples.append({"cfg": _jsonable(cfgs[0]), "choices": [], "decoded": _jsonable(ch.labels)})
    samples.extend(extra.pop("samples", []))
    zero = [c for c in getattr(mod, "CLAUSES", []) if not stats.clauses.get(c)]
    cov = {
        "states": stats.nodes + extra.pop("states", 0),
        "transitions": max(1, stats.nodes - len(cfgs)) + extra.pop("transitions", 0),
        "traces_validated_against_impl": stats.executions + extra.pop("executions", 0),
        "samples": samples,
        "evaluations": stats.executions,
        "distinct_nontrivial": len(stats.nontrivial),
        "nontrivial_executions": stats.nontrivial_execs,
        "distinct_outcomes": len(stats.outcomes),
        "distinct_counts_capped": stats.capped,
        "rule": getattr(mod, "RULE", ""),
        "configurations": len(cfgs),
        "bound": plan.get("bound", ""),
        "deviation_budget": budget,
        "max_choice_points": stats.max_len,
        "exhaustive": rc != 2,
        "caps_hit": [],
        "clause_evaluations": dict(sorted(stats.clauses.items())),
        "clauses_never_evaluated": zero,
        "known_findings_seen": [{"clause": c, "shape": s, "executions": n} for (c, s, n, _) in seen_known],
        "violation_shapes": [{"clause": c, "shape": s, "executions": n} for (c, s, n, _) in new],
        "explanation": "stateless exhaustive exploration of the real implementation: states = choice-tree nodes "
                       "(distinct histories of the closed system), transitions = tree edges; every execution is an "
                       "implementation run checked against the reference model (traces_validated_against_impl)",
    }
    cov.update(extra)
    ev = {"property_id": pid, "tier": a.tier, "seed": seed, "level": "model_checking", "coverage": cov,
          "assumptions": list(getattr(mod, "ASSUMPTIONS", [])), "wall_s": round(wall, 2),
          "violations": len(new)}
    if not a.no_evidence:
        os.makedirs(a.evidence_dir, exist_ok=True)
        with open(os.path.join(a.evidence_dir, "%s.json" % pid), "w") as f:
            json.dump(ev, f, indent=1)
    print("%s tier=%s cfgs=%d executions=%d states=%d outcomes=%d nontrivial=%d(distinct %d) viol_shapes=%d known=%d wall=%.1fs%s" % (
        pid, a.tier, len(cfgs), stats.executions, stats.nodes, len(stats.outcomes), stats.nontrivial_execs,
        len(stats.nontrivial), len(new), len(seen_known), wall,
        (" NEVER-EVALUATED=" + ",".join(zero)) if zero else ""))
    return rc


def replay(mod, pid, path):
    rec = json.load(open(path))
    if rec["cfg"] is None:
        st = explore.Stats()
        mod.post(rec.get("tier", "quick"), int(os.environ.get("VERIF_SEED", "0") or 0), st)
        hit = (rec["clause"], rec["shape"]) in st.viol
        print("VIOLATION property=%s replay=%s clause=%s shape=%s" % (pid, path, rec["clause"], rec["shape"]) if hit else "recorded violation does not occur on this tree")
        return 1 if hit else 0
    ch, res = describe(mod, rec["cfg"], rec["choices"], rec.get("budget"))
    for lab in ch.labels:
        print("  ", lab)
    hit = [v for v in res.violations if v[0] == rec["clause"] and v[1] == rec["shape"]]
    for v in res.violations:
        print("violation:", v)
    if hit:
        print("VIOLATION property=%s replay=%s clause=%s shape=%s" % (pid, path, rec["clause"], rec["shape"]))
        return 1
    print("replay of %s: recorded violation does not occur on this tree" % path)
    return 0
