"""C20 - real-time pacing never runs ahead of the (virtual) wall clock and alters no result."""
import time

from mc import kclient as KC
from mc.explore import Result
from mc.kclient import INF
from harness.c03 import Replayer

import onl.sim.rt as rt
from onl.sim import Environment, RealtimeEnvironment

PROPERTY = "C20"
CLAUSES = ["C20.same", "C20.notearly", "C20.strict", "C20.clock"]
RULE = ("every kernel program of <= D instructions x factor {0.5,1,2} x initial_time {0,5} x strict {T,F} x every wall-clock "
        "behaviour with <= B deviations: compute time consumed before a step in {0, f/2, f, f+2^-10, 2f}, each sleep(d) "
        "returning after {d, d/2, d+f/4, d+2f}, sync() before any of the first steps and after simulated time has advanced; non-trivial = at least one clock deviation or a strict-mode "
        "lag within 2^-10 of the limit; distinct = distinct (program, clock behaviour, log)")
ASSUMPTIONS = [
    "onl.sim.rt.monotonic/sleep and time.monotonic/time.sleep are replaced by a virtual clock owned by the harness; a run in "
    "which the virtual clock was never consulted is reported (C20.clock)",
    "processes consume wall time only between kernel steps (the harness adds it before a step)",
]
OPS = ["ret", ("T", 0), ("T", 1), ("T", 2), ("W", 0, True), ("S", 0), ("J", True), "I", "Sp"]


def plan(tier, seed):
    quick = tier == "quick"
    cfgs = []
    for factor in (0.5, 1, 2):
        for init in (0, 5):
            for strict in (1, 0):
                if quick and init == 5 and factor == 1:
                    continue
                cfgs.append(dict(depth=3 if quick else 4, factor=factor, init=init, strict=strict, syncsteps=3 if quick else 4))
    # a microsecond-scale factor (tolerances that are absolute, not relative to the factor, show here) and factor 0
    cfgs.append(dict(depth=3, factor=2.0 ** -12, init=0, strict=1, syncsteps=3))
    cfgs.append(dict(depth=3, factor=0, init=0, strict=1, syncsteps=3))
    cfgs.append(dict(depth=2 if quick else 3, factor=0, init=5, strict=0, syncsteps=2))
    # timeouts without any harness callback (a timer abandoned by an interrupted process has no callbacks at all), an
    # integer clock of 2^60
    cfgs.append(dict(depth=3 if quick else 4, factor=1, init=0, strict=1, syncsteps=2, noprobe=1))
    cfgs.append(dict(depth=3, factor=1, init=2 ** 60, strict=1, syncsteps=2))
    # run(until=T) segments of an environment that is (or has become) idle: the pacing applies to the stop as well
    for factor in (0.5, 2):
        for strict in (1, 0):
            cfgs.append(dict(idle=1, factor=factor, init=0, strict=strict))
    return {"cfgs": cfgs, "budget": 2,
            "bound": "D<=%d, clock deviation budget 2; idle environments: 3 run(until) segments" % (3 if quick else 4)}


class Rec:
    """forwards program choices to the explorer's chooser and remembers them"""

    def __init__(self, ch):
        self.ch = ch; self.prog = []

    def choose(self, n, label=None, free=False):
        c = self.ch.choose(n, label, free=True)
        self.prog.append(c)
        return c


def exec_idle(ch, cfg):
    """run(until=T) on an environment with nothing (left) to do: returns with now == T, not before the wall clock reached
    the instant of T; strict mode raises exactly when the stop itself is more than `factor` late"""
    res = Result()
    f, init, strict = cfg["factor"], cfg["init"], bool(cfg["strict"])
    clock = {"wall": 100.0, "calls": 0}

    def mono():
        clock["calls"] += 1
        return clock["wall"]

    def sleep(d):
        clock["calls"] += 1
        opts = [d, d / 2, d + f / 4]
        clock["wall"] += opts[ch.choose(3, lambda c: "sleep(%r) returns after %r" % (d, opts[c]))]
    saved = (rt.monotonic, rt.sleep, time.monotonic, time.sleep, time.perf_counter, time.time)
    rt.monotonic, rt.sleep, time.monotonic, time.sleep, time.perf_counter, time.time = mono, sleep, mono, sleep, mono, mono
    log = []
    try:
        env = RealtimeEnvironment(initial_time=init, factor=f, strict=strict)
        start = clock["wall"]
        with_proc = ch.choose(2, lambda c: "one process with a single timeout(1)" if c else "no process at all", free=True)
        if with_proc:
            def p():
                yield env.timeout(1)
            env.process(p())
        target = init
        for seg in range(3):
            step = [1, 2][ch.choose(2, lambda c: "segment %d: run(until=now+%d)" % (seg, [1, 2][c]), free=True)]
            late = [0, f / 2, 2 * f][ch.choose(3, lambda c: "wall time consumed before the segment: %r" % [0, f / 2, 2 * f][c])]
            clock["wall"] += late
            target += step
            res.ev("C20.notearly"); res.ev("C20.strict")
            try:
                env.run(until=target)
            except RuntimeError as e:
                log.append(("raised", target))
                lag = clock["wall"] - (start + (env.peek() - init) * f) if env.peek() < INF else None
                if not strict or not str(e).startswith("Simulation too slow") or (lag is not None and not lag > f):
                    res.bad("C20.strict", "idle:raised-%s" % ("in-non-strict-mode" if not strict else "although-lag<=factor"), "segment to %r: %s" % (target, str(e)[:60]))
                break
            log.append((env.now, clock["wall"]))
            if env.now != target:
                res.bad("C20.same", "idle:run-until-returned-at-another-instant", "run(until=%r) returned at %r" % (target, env.now))
                break
            if clock["wall"] < start + (target - init) * f:
                res.bad("C20.notearly", "idle:run-until-returned-ahead-of-the-wall-clock", "sim t=%r reached at wall %r, not before %r" % (target, clock["wall"], start + (target - init) * f))
                break
    finally:
        rt.monotonic, rt.sleep, time.monotonic, time.sleep, time.perf_counter, time.time = saved
    res.digest = (tuple(ch.choices), tuple(log))
    res.nontrivial = True
    return res


def execute(ch, cfg):
    if cfg.get("idle"):
        return exec_idle(ch, cfg)
    res = Result()
    f, init, strict = cfg["factor"], cfg["init"], bool(cfg["strict"])
    clock = {"wall": 100.0, "calls": 0}

    def mono():
        clock["calls"] += 1
        return clock["wall"]

    def sleep(d):
        clock["calls"] += 1
        opts = [d, d / 2, d + f / 4, d + 2 * f]
        c = ch.choose(4, lambda c: "sleep(%r) returns after %r" % (d, opts[c]))
        clock["wall"] += opts[c]
    saved = (rt.monotonic, rt.sleep, time.monotonic, time.sleep, time.perf_counter, time.time)
    rt.monotonic, rt.sleep, time.monotonic, time.sleep, time.perf_counter, time.time = mono, sleep, mono, sleep, mono, mono
    bad = None
    raised = None
    try:
        env = RealtimeEnvironment(initial_time=init, factor=f, strict=strict)
        real_start = clock["wall"]
        rec = Rec(ch)
        k = KC.K(rec, OPS, cfg["depth"], env=env, reaction=False, probe_timeouts=not cfg.get("noprobe"))
        seen = 0
        last_offer_now = init
        offers_late = 0
        compute = [0, f / 2, f, f + 2.0 ** -10, 2 * f]
        near = False
        while env.peek() < INF:
            c = ch.choose(len(compute), lambda c: "wall time consumed before this step: %r" % compute[c])
            clock["wall"] += compute[c]
            offer = k.stepno < cfg.get("syncsteps", 4) or (env.now > last_offer_now and offers_late < 2)
            if offer and k.stepno >= cfg.get("syncsteps", 4):
                offers_late += 1
            last_offer_now = env.now
            if offer and ch.choose(2, lambda c: "sync() before this step" if c else "no sync"):
                env.sync()
                real_start = clock["wall"]
            due_wall = real_start + (env.peek() - init) * f
            lag = clock["wall"] - due_wall
            want_raise = strict and lag > f
            if abs(lag - f) <= 2.0 ** -10:
                near = True
            k.stepno += 1
            res.ev("C20.strict")
            try:
                env.step()
            except RuntimeError as e:
                raised = str(e)
                if not want_raise or not raised.startswith("Simulation too slow for real time"):
                    bad = ("C20.strict", "raised-%s" % ("in-non-strict-mode" if not strict else ("although-lag<=factor" if raised.startswith("Simulation too slow") else "an-unrelated-RuntimeError")),
                           "lag %r factor %r strict %r: %s" % (lag, f, strict, raised[:60]))
                    break
                # a caller that catches the error and simply tries again (no sync(), no time gained) is refused again
                res.ev("C20.strict")
                try:
                    env.step()
                    bad = ("C20.strict", "too-slow-step-accepted-at-the-second-attempt", "lag %r > factor %r, nothing changed since the refusal" % (lag, f))
                except RuntimeError as e2:
                    if not str(e2).startswith("Simulation too slow for real time"):
                        bad = ("C20.strict", "raised-an-unrelated-RuntimeError", str(e2)[:60])
                except BaseException as e2:  # noqa
                    bad = ("C20.same", "run-raised-%s" % type(e2).__name__, repr(e2)[:100])
                break
            except BaseException as e:  # noqa
                bad = ("C20.same", "run-raised-%s" % type(e).__name__, repr(e)[:100])
                break
            if want_raise:
                bad = ("C20.strict", "too-slow-step-not-refused", "lag %r > factor %r in strict mode" % (lag, f))
                break
            for ent in k.log[seen:]:
                if ent[3] in ("start", "probe", "resume"):
                    res.ev("C20.notearly")
                    need = real_start + (ent[2] - init) * f
                    if clock["wall"] < need:
                        bad = ("C20.notearly", "occurrence-processed-ahead-of-the-wall-clock", "sim t=%r processed at wall %r, not before %r" % (ent[2], clock["wall"], need))
                        break
            seen = len(k.log)
            if bad:
                break
    finally:
        rt.monotonic, rt.sleep, time.monotonic, time.sleep, time.perf_counter, time.time = saved
    res.digest = (tuple(ch.choices), tuple(x[2:] for x in k.log), raised)
    res.nontrivial = ch.nz > 0 or near
    if bad:
        res.bad(*bad)
        return res
    res.ev("C20.clock")
    if clock["calls"] == 0 and k.stepno > 0:
        res.bad("C20.clock", "virtual-clock-never-consulted", "")
        return res
    # same event sequence as the plain Environment on the same program
    plain = KC.K(Replayer(rec.prog), OPS, cfg["depth"], env=Environment(init), reaction=False, probe_timeouts=not cfg.get("noprobe")).run()
    a = [x[2:] for x in k.log]
    b = [x[2:] for x in plain.log]
    res.ev("C20.same")
    if raised is not None:
        b = b[:len(a)]
    if a != b:
        i = 0
        while i < min(len(a), len(b)) and a[i] == b[i]:
            i += 1
        res.bad("C20.same", "log-differs-from-plain-environment", "entry %d: realtime %r vs plain %r" % (i, a[i] if i < len(a) else None, b[i] if i < len(b) else None))
    return res
