# throwaway: C06 puppet driver, reference = set of admissible states with lazy hand-over fork
import sys, time, itertools
from onl.sim import Environment, Interrupt, Resource, PriorityResource, PreemptiveResource
class Null:
    def write(s,x): pass
    def flush(s): pass
NP=3
def ops_menu(kind):
    m=[('tick',)]
    for p in range(NP):
        if kind=='plain': m.append(('req',p,0,False))
        else:
            for prio in (0,1):
                for pre in ((True,False) if kind=='preemptive' else (False,)):
                    m.append(('req',p,prio,pre))
        m += [('rel',p),('cancel',p),('exit',p),('relother',p),('rel2',p)]
    return m
def key(e): return (e[1],e[2],not e[3])     # entry=(pid,prio,time,pre,seq)
def scan(st,kind,cap,now):
    """returns set of states after a full scan (forks only on ties for the preemption victim)"""
    users,queue,pend,grants,pre=st
    out=set(); work=[(users,queue,grants,pre)]
    while work:
        users,queue,grants,pre=work.pop()
        if not queue: out.add((users,queue,False,grants,pre)); continue
        h=queue[0]; branched=False
        if kind=='preemptive' and len(users)>=cap and h[3]:
            wk=max(key(u) for u in users)
            if wk>key(h):
                for v in [u for u in users if key(u)==wk]:
                    u2=tuple(u for u in users if u!=v)
                    work.append((u2+(h,),queue[1:],grants+((h[0],now),),pre+((v[0],h[0],now),)))
                branched=True
        if branched: continue
        if len(users)<cap: work.append((users+(h,),queue[1:],grants+((h[0],now),),pre))
        else: out.add((users,queue,False,grants,pre))
    return out
def run(kind,cap,hist):
    env=Environment()
    res={'plain':Resource,'prio':PriorityResource,'preemptive':PreemptiveResource}[kind](env,cap)
    mailbox=[env.event() for _ in range(NP)]
    myreq=[None]*NP; seen_grant=[False]*NP; outstanding=[False]*NP; log=[]
    def puppet(pid):
        while True:
            try: cmd = yield mailbox[pid]
            except Interrupt as i:
                c=i.cause; log.append(('preempted',pid,procs.index(c.by),env.now,c.usage_since,c.resource is res))
                seen_grant[pid]=False; outstanding[pid]=False   # lost the slot
                continue
            mailbox[pid]=env.event(); op=cmd[0]
            if op=='req':
                r=res.request() if kind=='plain' else res.request(priority=cmd[2],preempt=cmd[3])
                myreq[pid]=r; outstanding[pid]=True; seen_grant[pid]=False
                def cb(e,pid=pid,r=r):
                    log.append(('grant',pid,env.now))
                    if myreq[pid] is r: seen_grant[pid]=True
                r.callbacks.append(cb)
            elif op in ('rel','rel2'):
                res.release(myreq[pid]); outstanding[pid]=False; seen_grant[pid]=False
                if op=='rel2': res.release(myreq[pid])
            elif op=='cancel':
                myreq[pid].cancel(); outstanding[pid]=bool(myreq[pid].triggered)
            elif op=='exit': myreq[pid].__exit__(None,None,None); outstanding[pid]=False; seen_grant[pid]=False
            elif op=='relother': res.release(myreq[(pid+1)%NP])
    procs=[env.process(puppet(p)) for p in range(NP)]
    env.run(until=0.5)
    states={((),(),False,(),())}; seq=0; batch=[]
    def flush():
        nonlocal batch,states
        for op in batch: mailbox[op[1]].succeed(op)
        while env.peek()<=env.now: env.step()
        batch=[]
        ns=set()
        for st in states:
            ns |= scan(st,kind,cap,env.now) if st[2] else {st}
        states=ns
    def legal(op):
        p=op[1]
        if op[0]=='req': return not outstanding[p]
        if op[0] in ('rel','rel2'): return outstanding[p] and seen_grant[p]      # a process releases what it knows it holds
        if op[0]=='cancel': return outstanding[p] and not seen_grant[p]         # gives up waiting (as far as it knows)
        if op[0]=='exit': return outstanding[p]
        if op[0]=='relother': return myreq[(p+1)%NP] is not None and not outstanding[(p+1)%NP]   # stale/foreign finished request: non-user
    def compare(tag):
        iu=sorted(procs.index(u.proc) for u in res.users); iq=[procs.index(q.proc) for q in res.queue]
        ig=tuple((l[1],l[2]) for l in log if l[0]=='grant'); ip=tuple((l[1],l[2],l[3]) for l in log if l[0]=='preempted')
        ok=[st for st in states if sorted(u[0] for u in st[0])==iu and [q[0] for q in st[1]]==iq and sorted(st[3])==sorted(ig) and st[4]==ip]
        if not ok: return (tag,env.now,iu,iq,ig,ip,sorted(states)[:2])
        # grant order within the run must match at least one admissible state exactly
        if not any(st[3]==ig for st in ok): return ('grant order',ig,[st[3] for st in ok][:2])
        for l in log:
            if l[0]=='preempted' and not l[5]: return ('preempt cause',l)
    for op in hist:
        if op[0]=='tick':
            flush()
            if res.count>cap: return ('cap',)
            if res.queue and res.count<cap: return ('idle slot',env.now)
            r=compare('state')
            if r: return r
            env.run(until=env.now+1); continue
        if any(b[1]==op[1] for b in batch) or (op[0]=='relother' and any(b[1]==(op[1]+1)%NP for b in batch)): flush()
        if not legal(op): return 'PRUNED'
        batch.append(op); p=op[1]; now=env.now; ns=set()
        for st in states:
            variants={st} | (scan(st,kind,cap,now) if st[2] else set())   # lazy hand-over may or may not have happened yet
            for (users,queue,pend,grants,pre) in variants:
                if op[0]=='req':
                    seq+=1
                    e=(p,op[2] if kind!='plain' else 0, now if kind!='plain' else 0, op[3] if kind!='plain' else False, seq)
                    q=queue+(e,)
                    if kind!='plain': q=tuple(sorted(q,key=key))
                    ns |= scan((users,q,False,grants,pre),kind,cap,now) if not pend else (scan((users,q,False,grants,pre),kind,cap,now))
                elif op[0] in ('rel','rel2','relother','exit','cancel'):
                    t=p if op[0]!='relother' else (p+1)%NP
                    inq=any(x[0]==t for x in queue); inu=any(x[0]==t for x in users)
                    if op[0]=='cancel':
                        ns.add((users,tuple(x for x in queue if x[0]!=t),pend,grants,pre))
                    elif op[0]=='exit':
                        ns.add((tuple(x for x in users if x[0]!=t),tuple(x for x in queue if x[0]!=t),True,grants,pre))
                    else:
                        ns.add((tuple(x for x in users if x[0]!=t),queue,True,grants,pre))
        states=ns
    flush()
    if res.queue and res.count<cap: return ('idle slot end',)
    return compare('final')
def explore(kind,cap,depth):
    menu=ops_menu(kind); n=0; bads=[]
    for hist in itertools.product(menu,repeat=depth):
        r=run(kind,cap,list(hist)+[('tick',)])
        if r=='PRUNED': continue
        n+=1
        if r: bads.append((hist,r))
    return n,bads
real=sys.stdout; sys.stdout=Null(); out=[]
for kind,cap,depth in (('plain',1,4),('plain',2,4),('prio',1,4),('preemptive',1,4),('preemptive',2,4)):
    t=time.perf_counter(); n,b=explore(kind,cap,depth); out.append((kind,cap,depth,n,len(b),round(time.perf_counter()-t,1),b[:2]))
sys.stdout=real
for o in out: print(str(o)[:900])
