#!/venv/bin/python
"""False-alarm test: behaviour-preserving refactorings written by independent sub-agents must leave every check silent.

usage: tools_benign.py <dir with r<i>.diff> <name> <comma separated checks>
Each refactoring is applied to a scratch copy of /repo; the pinned suite must pass; every listed check runs against the copy.
Results are archived under /verif/benign/<name>-r<i>/ (patch.diff, meta.json)."""
import json, os, shutil, subprocess, sys, tempfile, time
VERIF = os.path.dirname(os.path.abspath(__file__))
PY = "/venv/bin/python"


def sh(cmd, cwd=None, env=None, timeout=3000):
    e = dict(os.environ); e.update(env or {})
    try:
        p = subprocess.run(cmd, shell=True, cwd=cwd, env=e, capture_output=True, text=True, timeout=timeout)
        return p.returncode, p.stdout + p.stderr
    except subprocess.TimeoutExpired:
        return 124, "TIMEOUT"


def main():
    src, name, checks = sys.argv[1], sys.argv[2], sys.argv[3].split(",")
    readme = open(os.path.join(src, "README.md")).read() if os.path.exists(os.path.join(src, "README.md")) else ""
    for d in sorted(f for f in os.listdir(src) if f.startswith("r") and f.endswith(".diff")):
        rid = d[:-5]
        scratch = tempfile.mkdtemp(prefix="benign_%s_%s_" % (name, rid), dir="/tmp")
        try:
            sh("rsync -a --exclude .git --exclude _mut --exclude _mut2 --exclude _ref /repo/ %s/" % scratch)
            rc_apply, out = sh("git apply --unsafe-paths --directory=%s %s" % (scratch, os.path.join(src, d)), cwd="/")
            rc_tests, out_t = sh("%s -m pytest -q -p no:cacheprovider -x" % PY, cwd=scratch, env={"PYTHONPATH": scratch}, timeout=900)
            res = {}
            for c in checks:
                t0 = time.time()
                rc, out = sh("%s run.py %s --tier quick --no-evidence" % (PY, c), cwd=VERIF, env={"ONL_REPO": scratch})
                viol = [l[:400] for l in out.splitlines() if l.startswith("VIOLATION") or l.startswith("HARNESS")]
                res[c] = {"exit": rc, "alarms": viol[:5], "wall_s": round(time.time() - t0, 1)}
            dst = os.path.join(VERIF, "benign", "%s-%s" % (name, rid))
            os.makedirs(dst, exist_ok=True)
            shutil.copy(os.path.join(src, d), os.path.join(dst, "patch.diff"))
            meta = {"refactoring": "%s-%s" % (name, rid), "origin": "independent sub-agent asked for a behaviour-preserving refactoring",
                    "patch_applies": rc_apply == 0, "pinned_suite_passes": rc_tests == 0, "checks": res,
                    "silent": all(v["exit"] == 0 for v in res.values()), "description": readme[:3000]}
            json.dump(meta, open(os.path.join(dst, "meta.json"), "w"), indent=1)
            print("%s-%s applies=%s suite=%s silent=%s %s" % (name, rid, rc_apply == 0, rc_tests == 0, meta["silent"],
                                                           {c: v["exit"] for c, v in res.items() if v["exit"] != 0}))
            for c, v in res.items():
                for a in v["alarms"][:2]:
                    print("     ", c, a[:300])
        finally:
            shutil.rmtree(scratch, ignore_errors=True)


if __name__ == "__main__":
    main()
