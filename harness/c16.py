"""C16 - TCP acknowledgements are cumulative and correct; all data gets through."""
from mc import explore
from mc.explore import Result
from mc.kclient import INF

from onl.sim import Environment
from onl.packet import Packet, TCPPacketGenerator, TCPSink, TCPReno, TCPCubic
from onl.packet.tcp_generator import Flow

PROPERTY = "C16"
CLAUSES = ["C16.ack", "C16.noraise", "C16.complete", "C16.nodup"]
RULE = ("(A) every arrival sequence of <= L segments over {0,1,2,3}*MSS at a TCPSink (duplicates, gaps, first segment missing); "
        "(B) real TCPPacketGenerator + TCPSink over a harness path with fixed one-way delays, flow of 1..4(5) MSS, initial RTT "
        "estimate 0.5 (RTO < RTT: spurious timeouts) or 4, Reno and CUBIC, under every set of <= F faults (transmission dropped, or delivered 4 s late, FIFO kept) among "
        "the first K data and first K ACK transmissions; non-trivial = (A) an arrival was out of order or duplicated, (B) at "
        "least one transmission was dropped or a spurious timeout occurred; distinct = distinct (configuration, drop set, "
        "transmission log)")
ASSUMPTIONS = [
    "paths are FIFO with constant delay (no reordering of ACKs); drops are chosen per transmission index",
    "explicit horizon of 4000 + 100 per MSS simulated seconds and 20000 + 400 per MSS kernel steps: a run that has not completed by then is reported",
]
MSS = 512


def plan(tier, seed):
    quick = tier == "quick"
    cfgs = [dict(kind="sink", L=6 if quick else 7),
            # segments far ahead of the gap (beyond any 64 KiB window), recording options switched off
            dict(kind="sink", L=6 if quick else 7, segs=[0, 1, 130, 131]),
            dict(kind="sink", L=5 if quick else 6, flags=1),
            # fixed long arrival orders: a segment far ahead first, then the gap filled in; everything in reverse
            dict(kind="sink", script=[127] + list(range(127))), dict(kind="sink", script=[300, 299] + list(range(299))),
            dict(kind="sink", script=list(range(199, -1, -1))),
            # many holes at once (round 5: a reassembly list cut to a fixed number of ranges): 100 / 67 disjoint ranges
            # outstanding, then filled in forwards, backwards, and with every arrival duplicated
            dict(kind="sink", script=list(range(1, 200, 2)) + list(range(0, 200, 2))),
            dict(kind="sink", script=list(range(198, 0, -2)) + list(range(199, -1, -2)) + [0]),
            dict(kind="sink", script=list(range(2, 200, 3)) + [k for i in range(67) for k in (3 * i, 3 * i + 2, 3 * i + 1)]),
            dict(kind="sink", flags=1, script=[17, 15, 13, 11, 9, 7, 5, 3, 1, 19, 21, 23, 0, 2, 4, 6, 8, 10, 12, 14, 16, 18, 20, 22, 24])]
    for cc in ("reno", "cubic"):
        for delays in ([1, 1], [1, 3], [3, 5]):
            for est in (0.25, 0.5, 4):
                for size in ((1, 2, 3, 4, 6) if quick else (1, 2, 3, 4, 5, 6, 8)):
                    if quick and cc == "cubic" and size in (3, 4):
                        continue
                    cfgs.append(dict(kind="e2e", cc=cc, delays=delays, est=est, size=size, K=12 if quick else 20))
    # delays and estimates that are not binary fractions (timer arithmetic must not depend on exact float identities),
    # and a zero-delay path (RTT samples of exactly 0)
    for cc in ("reno", "cubic"):
        for (delays, est) in (([0.3, 0.1], 0.3), ([0.3, 0.1], 0.7), ([0.1, 0.2], 0.1), ([0, 0], 0.25), ([0, 0], 4)):
            for size in ((2, 4) if quick else (1, 2, 3, 4, 6)):
                cfgs.append(dict(kind="e2e", cc=cc, delays=delays, est=est, size=size, K=12 if quick else 16))
    # an initial RTO a hair (2^-23 s) above the RTT: nothing may be retransmitted on a loss-free path
    for cc in ("reno", "cubic"):
        for size in (1, 2, 4):
            cfgs.append(dict(kind="e2e", cc=cc, delays=[1, 1], est=1 + 2.0 ** -24, size=size, K=6))
    # flow ids at and above the ACK class offset (10000); a sink that records nothing
    for cc in ("reno", "cubic"):
        cfgs.append(dict(kind="e2e", cc=cc, delays=[1, 1], est=0.5, size=2, K=8, fid=10000))
        cfgs.append(dict(kind="e2e", cc=cc, delays=[1, 1], est=4, size=3, K=8, fid=20007))
        cfgs.append(dict(kind="e2e", cc=cc, delays=[1, 1], est=0.5, size=2, K=8, flags=1))
    # paths that reorder: a delayed data segment or ACK is overtaken by later ones ("any path that delays ... packets")
    for cc in ("reno", "cubic"):
        for (est, size) in ((0.5, 2), (4, 3), (0.5, 4)):
            cfgs.append(dict(kind="e2e", cc=cc, delays=[1, 1], est=est, size=size, K=8 if quick else 12, reorder=1))
    # two connections side by side in one program (state shared between senders would couple them)
    for cc in ("reno", "cubic"):
        for size in ((2, 4) if quick else (2, 3, 4, 6)):
            cfgs.append(dict(kind="e2e", cc=cc, delays=[1, 1], est=0.5, size=size, K=8 if quick else 12, twin=1))
    # long flows under periodic fault patterns (one fixed execution each): state that only breaks after hundreds of segments
    for cc in ("reno", "cubic"):
        for (delays, est) in (([1, 1], 0.5), ([0.3, 0.1], 0.7), ([3, 5], 4)):
            for size in (300, 1500):
                for pat in ([0], [0] * 17 + [1], [0] * 23 + [2] + [0] * 7 + [1], [0] * 40 + [1, 1, 0, 0, 0, 2]):
                    cfgs.append(dict(kind="e2e", cc=cc, delays=delays, est=est, size=size, K=10 ** 6, long={"pattern": pat}))
    # a long outage: the first 11 (12) transmissions are all lost (the explicit horizon of 4000 s allows no more), so one segment is retransmitted a dozen times in a row and the
    # RTO doubles a dozen times (round 5: a backoff that stops re-arming the timer at some ceiling)
    for cc in ("reno", "cubic"):
        for (size, est, out) in ((1, 0.5, 11), (3, 0.5, 11), (2, 0.25, 12)):
            cfgs.append(dict(kind="e2e", cc=cc, delays=[1, 1], est=est, size=size, K=10 ** 6, long={"pattern": [1] * out + [0] * 200}))
    ndebug = explore.add_debug_variants(cfgs)      # the same with sender and sink constructed with debug=True
    return {"cfgs": cfgs, "budget": 3 if quick else 4,
            "bound": ("%d configurations repeated with debug=True; " % ndebug) + "48 long flows (300/1500 MSS) under periodic fault patterns, 6 short flows through an outage of 11/12 consecutive losses; sink: sequences of <=%d segments + 7 fixed long arrival orders (up to 100 holes outstanding); end to end: flows of 1..%d MSS, path delays (1,1),(1,3),(3,5),(.3,.1),(.1,.2),(0,0), initial RTT estimate .1/.25/.3/.5/.7/4, "
                     "<=%d faults (drop, or delivery delayed by 4) among the first %d data / ACK transmissions" % (6 if quick else 7, 6 if quick else 8, 3 if quick else 4, 12 if quick else 20)}


def execute(ch, cfg):
    return exec_sink(ch, cfg) if cfg["kind"] == "sink" else exec_e2e(ch, cfg)


def exec_sink(ch, cfg):
    res = Result()
    env = Environment()
    sink = TCPSink(env, rec_arrivals=False, absolute_arrivals=False, rec_waits=False, rec_flow_ids=False) if cfg.get("flags") else TCPSink(env)
    segs = cfg.get("segs", [0, 1, 2, 3])
    acks = []

    class Out:
        def put(self, p):
            acks.append(p)
    sink.out = Out()
    got = set()
    seq = []
    prev = 0
    script = cfg.get("script")
    for i in range(len(script) if script else cfg["L"]):
        if script:
            k = script[i]
        else:
            c = ch.choose(5, lambda c: "segment %s" % ("stop" if c == 0 else segs[c - 1]), free=True)
            if c == 0:
                break
            k = segs[c - 1]
        seq.append(k)
        n0 = len(acks)
        try:
            sink.put(Packet(float(i), MSS, k * MSS, flow_id=3))
        except BaseException as e:  # noqa
            res.bad("C16.noraise", "TCPSink:put-raised-%s" % type(e).__name__, "sequence %r: %r" % (seq, e))
            break
        if k in got or (seq[:-1] and k != max(seq[:-1]) + 1) or (not seq[:-1] and k != 0):
            res.nontrivial = True
        got.add(k)
        n = 0
        while n in got:
            n += 1
        want = n * MSS
        res.ev("C16.ack")
        if len(acks) != n0 + 1:
            res.bad("C16.ack", "TCPSink:%s" % ("no-ack-returned" if len(acks) == n0 else "several-acks-for-one-segment"), "sequence %r" % seq)
            break
        a = acks[-1]
        if a.ack != want:
            kind = "first-segment-missing" if 0 not in got else ("duplicate-arrival" if seq.count(k) > 1 else "out-of-order-arrival")
            res.bad("C16.ack", "TCPSink:ack-differs-from-contiguous-prefix:%s" % kind, "sequence %r: ack %r, contiguous prefix %r" % (seq, a.ack, want))
            break
        if a.ack < prev:
            res.bad("C16.ack", "TCPSink:ack-decreased", "sequence %r" % seq)
            break
        if a.flow_id != 10003:
            res.bad("C16.ack", "TCPSink:ack-not-in-the-flow's-ack-class", "flow id %r" % a.flow_id)
            break
        prev = a.ack
    res.digest = (tuple(seq), tuple(a.ack for a in acks))
    return res


class Path:
    """path with constant delay; transmissions (by index, chosen lazily, budgeted) may be dropped, delivered 4 s late with
    everything behind them held back (FIFO), or - on paths created with reorder=True - delivered 4 s late while later
    transmissions overtake them.  In-order deliveries are chained, so rounding in now + (at - now) can never reorder them."""

    def __init__(self, env, ch, name, delay, dst, K, log, reorder=False):
        self.env = env; self.ch = ch; self.name = name; self.delay = delay; self.dst = dst; self.K = K; self.log = log
        self.n = 0
        self.drops = 0
        self.rto = lambda: None
        self.last = 0
        self.prev = None            # delivery event of the previous in-order transmission
        self.reorder = reorder

    def put(self, pkt):
        idx = self.n
        self.n += 1
        f = 0
        if idx < self.K:
            kinds = ["delivered", "DROPPED", "delivered 4 late"] + (["delivered 4 late, OVERTAKEN by later ones"] if self.reorder else [])
            f = self.ch.choose(len(kinds), lambda c, idx=idx: "%s transmission #%d %s" % (self.name, idx, kinds[c]))
        drop = f == 1
        self.log.append((self.name, idx, self.env.now, pkt.packet_id, getattr(pkt, "ack", None) if self.name == "ack" else None, f,
                         self.rto() if self.name == "data" else None))
        if drop:
            self.drops += 1
            return
        if f == 3:
            self.env.process(self.deliver(pkt, self.env.now + self.delay + 4, None, None))
            return
        # FIFO: never overtake an earlier in-order delivery
        at = max(self.env.now + self.delay + (4 if f == 2 else 0), self.last)
        self.last = at
        done = self.env.event()
        self.env.process(self.deliver(pkt, at, self.prev, done))
        self.prev = done

    def deliver(self, pkt, at, prev, done):
        if prev is not None and not prev.processed:
            yield prev
        if at > self.env.now:
            yield self.env.timeout(at - self.env.now)
        self.dst.put(pkt)
        if done is not None:
            done.succeed()


def exec_e2e(ch, cfg):
    res = Result()
    env = Environment()
    size = cfg["size"] * MSS
    flow = Flow(flow_id=cfg.get("fid", 0), src="s", dst="d", start_time=0, finish_time=10 ** 9, size=size)
    cc = TCPReno() if cfg["cc"] == "reno" else TCPCubic()
    log = []
    tag = "TCP(%s,est=%s)" % (cfg["cc"], "short" if cfg["est"] < 1 else "long")
    err = None
    try:
        sender = TCPPacketGenerator(env, flow=flow, cc=cc, element_id="s", rtt_estimate=cfg["est"])
        sink = TCPSink(env, rec_arrivals=False, rec_waits=False) if cfg.get("flags") else TCPSink(env)
        data = Path(env, ch, "data", cfg["delays"][0], sink, cfg["K"], log, reorder=bool(cfg.get("reorder")))
        ack = Path(env, ch, "ack", cfg["delays"][1], sender, cfg["K"], log, reorder=bool(cfg.get("reorder")))
        sender.out = data
        sink.out = ack
        data.rto = lambda: sender.rto
        if cfg.get("twin"):
            # a second, loss-free connection of the same size running concurrently
            flow2 = Flow(flow_id=1, src="s2", dst="d2", start_time=0, finish_time=10 ** 9, size=size)
            sender2 = TCPPacketGenerator(env, flow=flow2, cc=TCPReno() if cfg["cc"] == "reno" else TCPCubic(), element_id="s2", rtt_estimate=cfg["est"])
            sink2 = TCPSink(env)

            class Plain:
                def __init__(self, dst, d):
                    self.dst = dst; self.d = d

                def put(self, pkt):
                    env.process(self.go(pkt))

                def go(self, pkt):
                    yield env.timeout(self.d)
                    self.dst.put(pkt)
            sender2.out = Plain(sink2, cfg["delays"][0])
            sink2.out = Plain(sender2, cfg["delays"][1])
        steps = 0
        tmax, smax = 4000 + 100 * cfg["size"], 20000 + 400 * cfg["size"]
        while env.peek() < INF and env.peek() <= tmax and steps < smax:
            env.step()
            steps += 1
    except BaseException as e:  # noqa
        from mc.net import _where
        err = (type(e).__name__, _where(e), repr(e)[:120])
    res.digest = (tuple(x[:6] for x in log), err and err[:2])
    drops = [x for x in log if x[5]]
    res.nontrivial = bool(drops)
    late = any(x[5] in (2, 3) for x in log)
    res.ev("C16.noraise")
    if err:
        res.bad("C16.noraise", "%s:%s@%s" % (tag, err[0], err[1]), "%s; drops %r; %d transmissions" % (err[2], [(x[0], x[1]) for x in drops], len(log)))
        return res
    res.ev("C16.complete")
    if cfg.get("twin") and ([list(x) for x in sink2.recv_buffer] != [[0, size]] or sender2.last_ack != size):
        res.bad("C16.complete", "%s:second-concurrent-connection-incomplete" % tag, "sink2 %r last_ack %r" % (sink2.recv_buffer, sender2.last_ack))
        return res
    held = [list(x) for x in sink.recv_buffer]
    done = held == [[0, size]] and sender.last_ack == size
    if not done:
        why = "sink-incomplete" if held != [[0, size]] else "sender-acknowledged-mark-short-of-the-data"
        if steps >= smax or env.peek() <= tmax:
            why += "-still-busy-at-the-horizon"
        res.bad("C16.complete", "%s:%s" % (tag, why), "flow %d bytes: sink %r last_ack %r at t=%r; drops %r" % (size, sink.recv_buffer, sender.last_ack, env.now, [(x[0], x[1]) for x in drops]))
        return res
    rtt = sum(cfg["delays"])
    if not drops and not late and all(x[6] > rtt for x in log if x[0] == "data"):
        res.ev("C16.nodup")
        res.nontrivial = True
        ids = [x[3] for x in log if x[0] == "data"]
        if len(ids) != len(set(ids)):
            res.bad("C16.nodup", "%s:segment-retransmitted-on-a-loss-free-path-with-RTT<RTO" % tag, "data transmissions %r" % ids)
    elif not drops and len([x for x in log if x[0] == "data"]) > cfg["size"]:
        res.nontrivial = True
    return res
