"""C09 - Port: line-rate FIFO, exact tail drop, occupancy, per-hop stamp, PortMonitor; REDPort
decision function of the (harness-owned) random draw."""
import random

from mc import net as N
from mc import explore
from mc.explore import Result

from onl.netdev import Port, PortMonitor
from onl.netdev.red_port import REDPort

PROPERTY = "C09"
CLAUSES = ["C09.noraise", "C09.drop", "C09.count", "C09.depart", "C09.once", "C09.occ", "C09.stamp", "C09.monitor",
           "C09.red"]
RULE = ("every arrival workload of <= N packets (gap in {same step, same instant, +1, +2, long idle} x size in {1,2,3}) "
        "for every (rate, qlimit, limit mode) and, for RED, every draw from a menu on either side of the curve; "
        "non-trivial = at least one arrival met a non-empty port and (for limited ports) at least one drop decision was "
        "taken at occupancy within one packet of the limit; distinct = distinct (workload, decisions, departure instants)")
ASSUMPTIONS = [
    "whether a packet whose transmission starts at instant t counts as 'waiting' for another arrival at the same "
    "instant t is left open by the statement: both readings are admissible for the packet-limit rule",
    "RED: the instantaneous queue size fed to the EWMA is the port's own public occupancy read just before the arrival "
    "(its correctness is the C09.occ clause); curve = linear 0..max_p on [min_th,max_th), max_p on [max_th,qlimit), 1 above",
    "RED draws are never placed exactly on the curve (the <=/< boundary has probability zero)",
]
EID = "p1"


def plan(tier, seed):
    quick = tier == "quick"
    n = 4 if quick else 5
    cfgs = []
    limits = [("none", None)] + [("bytes", q) for q in (0, 2, 3, 4, 6)] + [("pkts", q) for q in (0, 1, 2, 3)]
    for rate in (0, 8, 16):
        for mode, q in limits:
            nn = n if (rate == 8 or not quick) else n - 1
            cfgs.append(dict(kind="port", rate=rate, mode=mode, qlimit=q, N=nn, gaps="G5", sizes=[1, 2, 3], order=0))
        cfgs.append(dict(kind="port", rate=rate, mode="bytes", qlimit=4, N=n - 1, gaps="G5", sizes=[1, 2, 3], order=1))
        cfgs.append(dict(kind="port", rate=rate, mode="pkts", qlimit=2, N=n - 1, gaps="G5", sizes=[1, 2, 3], order=1))
    for rate in (0, 8):
        for incl in (True, False):
            for mode, q in (("none", None), ("bytes", 4), ("pkts", 3)):
                cfgs.append(dict(kind="port", rate=rate, mode=mode, qlimit=q, N=n - 1, gaps=["S", "N", 1, 2], sizes=[1, 2, 3],
                                 order=0, mon=incl))
    # samples taken exactly at arrival / departure instants (service included): any occupancy passed through at that instant
    for order in (0, 1):
        cfgs.append(dict(kind="port", rate=8, mode="none", qlimit=None, N=n - 1, gaps=["S", 1, 2], sizes=[1, 2], order=order, mon=True, coincide=1))
    for (mn, mx) in ((1, 2), (1, 3)):
        for q in (3, 4):
            for wf in (0, 1):
                for mp in (0.5, 1):
                    for mode in ("pkts", "bytes"):
                        if quick and (q == 4) != (mx == 3):
                            continue
                        cfgs.append(dict(kind="red", rate=8, mode=mode, qlimit=q, minth=mn, maxth=mx, wf=wf, maxp=mp,
                                         N=n, gaps=["S", 1, 2], sizes=[1, 2], order=0))
    for wf in (0.5, 1.5):
        cfgs.append(dict(kind="red", rate=8, mode="pkts", qlimit=4, minth=1, maxth=3, wf=wf, maxp=0.5, N=n, gaps=["S", 1, 2], sizes=[1, 2], order=0))
    # Gbit/s rates on a nanosecond time axis (transmissions far below a microsecond)
    cfgs.append(dict(kind="port", rate=8 * 2 ** 30, mode="bytes", qlimit=4, N=n - 1, gaps=["S", 1, 2], sizes=[1, 2, 3], order=0, scale=2.0 ** -30))
    cfgs.append(dict(kind="port", rate=8 * 2 ** 30, mode="none", qlimit=None, N=n - 1, gaps=["S", 1, 2], sizes=[1, 2, 3], order=0, scale=2.0 ** -30, mon=True))
    cfgs.append(dict(kind="port", rate=8, mode="bytes", qlimit=4, N=n - 1, gaps=["S", 1, 2], sizes=[1, 2, 3], order=0, mailbox=1))
    cfgs.append(dict(kind="port", rate=0, mode="pkts", qlimit=2, N=n - 1, gaps=["S", 1, 2], sizes=[1, 2], order=0, mailbox=1))
    # every configuration once more with long fixed workloads (state that only breaks after hundreds of packets)
    nlong = explore.add_long(cfgs, 300 if quick else 1000, burst=1100)
    ndebug = explore.add_debug_variants(cfgs)      # the same with every element constructed with debug=True
    return {"cfgs": cfgs, "budget": None,
            "bound": ("%d long fixed workloads (periodic arrival patterns); %d configurations repeated with debug=True; " % (nlong, ndebug)) + ("Port: N<=%d, rates {0,8,16}, qlimit None/bytes{0,2,3,4,6}/packets{0,1,2,3}, monitors in/excl; "
                     "RED: N<=%d, thresholds (1,2),(1,3), qlimit {3,4}, weight {0,1}, max_p {.5,1}, both modes, 4 draws per decision (p/2, (1+p)/2, 15p/16, 17p/16)" % (n, n))}


class Rec:
    pass


def execute(ch, cfg):
    res = Result()
    net = N.Net()
    env = net.env
    kind = cfg["kind"]
    mode = cfg["mode"]
    q = cfg["qlimit"]
    tag = "%s(%s)" % ("REDPort" if kind == "red" else "Port", mode)
    items = N.menu(N.G5 if cfg["gaps"] == "G5" else cfg["gaps"], [0], cfg["sizes"])
    holder = {}

    class Front:
        def put(self, pkt):
            holder["p"].put(pkt)
    rec = Rec()
    rec.dec = []      # per arrival: (dropped?, raised?)
    rec.red = []      # per arrival: (cur, draw or None)
    rec.occ_bad = None
    nmax = cfg["N"]

    def mk():
        if kind == "red":
            return REDPort(env, cfg["rate"], cfg["maxth"], cfg["minth"], cfg["maxp"], EID, q, weight_factor=cfg["wf"],
                           limit_bytes=(mode == "bytes"))
        return Port(env, cfg["rate"], q, mode == "bytes", EID)
    if cfg.get("order", 0) == 0:
        env.process(net.driver(ch, nmax, items, Front(), long_gap=40, scale=cfg.get("scale", 1)))
        port = mk()
    else:
        port = mk()
        env.process(net.driver(ch, nmax, items, Front(), long_gap=40, scale=cfg.get("scale", 1)))
    if cfg.get("mailbox"):
        from onl.sim import Store
        box = Store(env)
        tap = net.sink()

        def consumer():
            while True:
                p = yield box.get()
                tap.put(p)
        env.process(consumer())
        port.out = box
    else:
        port.out = net.sink()
    real_put = port.put
    state = {"avg": 0.0, "draw": None, "p": None}

    def fake_uniform(a, b):
        # harness-owned draw: one value on either side of the reference curve value p
        p = state["p"]
        if p is None or p <= 0 or p >= 1:
            # the decision must not depend on the draw here: offer a small and a large one
            forced = [0.0625, 0.9375]
            d = forced[ch.choose(2, lambda c: "draw %r (decision is forced)" % forced[c])]
        else:
            menu = [p / 2, (1 + p) / 2, p * 0.9375, min(p * 1.0625, (1 + p) / 2)]
            d = menu[ch.choose(4, lambda c: "draw %r vs curve value %r" % (menu[c], p))]
        state["draw"] = d
        return d

    def wrapped_put(pkt):
        before = port.packets_dropped
        if kind == "red":
            cur = port.byte_size if mode == "bytes" else len(port.store.items)
            alpha = 2.0 ** (-cfg["wf"])
            avg = state["avg"] * (1 - alpha) + cur * alpha
            state["avg"] = avg
            if avg >= q:
                p = 1.0
            elif avg >= cfg["maxth"]:
                p = cfg["maxp"]
            elif avg >= cfg["minth"]:
                p = (avg - cfg["minth"]) / (cfg["maxth"] - cfg["minth"]) * cfg["maxp"]
            else:
                p = 0.0
            state["p"] = p
            state["draw"] = None
        real_put(pkt)
        dropped = port.packets_dropped - before
        rec.dec.append(dropped)
        if kind == "red":
            rec.red.append((state["avg"], state["p"], state["draw"], getattr(port, "average_queue_size", None)))
    holder["p"] = type("W", (), {"put": staticmethod(wrapped_put)})()
    mon = None
    if cfg.get("mon") is not None:
        first = [True]

        def dist():
            if first[0]:
                first[0] = False
                return 0.25 if not cfg.get("coincide") else 1
            return 1
        mon = PortMonitor(env, port, dist, pkt_in_service_included=cfg["mon"])
        env.process(mon.run())

    def occ(where):
        if cfg.get("mailbox"):
            return      # departures are logged by the consumer a few kernel steps late
        if rec.occ_bad is None:
            held = sum(a.size for k, a in enumerate(net.arrs) if k < len(rec.dec) and rec.dec[k] == 0 and a.dep is None)
            if port.byte_size != held:
                rec.occ_bad = (where, port.byte_size, held, env.now)
    net.after_put = lambda a: occ("after-put")
    horizon = 10 ** 9 if mon is None else 4 * nmax + 3
    saved = random.uniform
    saved_random = random.random
    random.uniform = fake_uniform
    random.random = lambda: fake_uniform(0, 1)
    try:
        err = net.run(horizon, after_step=lambda: occ("after-step"))
    finally:
        random.uniform = saved
        random.random = saved_random
    res.digest = (tuple(rec.dec), tuple((d.arr.i if d.arr else -1, d.t) for d in net.deps), err,
                  tuple((a.t, a.size) for a in net.arrs))
    res.ev("C09.noraise")
    if err:
        res.bad("C09.noraise", "%s:qlimit=%s:%s@%s" % (tag, "None" if q is None else "set", err[0], err[1]), err)
        return res
    arrs = net.arrs
    # ---- drop decisions ---------------------------------------------------------------------
    rate = cfg["rate"]
    accepted = []
    near = False
    for k, a in enumerate(arrs):
        dropped = rec.dec[k]
        res.ev("C09.drop")
        if dropped not in (0, 1):
            res.bad("C09.count", tag + ":drop-counter-jumped", "arrival %d: packets_dropped changed by %d" % (k, dropped))
            return res
        und = [x for x in accepted if x.dep is None or x.dep.seq > a.seq]
        if und:
            res.nontrivial = True
        if kind == "port":
            if mode == "none":
                want = {False}
            elif mode == "bytes":
                held = sum(x.size for x in und)
                want = {held + a.size > q}
                if held + a.size in (q, q + 1):
                    near = True
            else:
                if not und:
                    waiting = {0}
                else:
                    h = und[0]
                    idx = accepted.index(h)
                    prev_dep = accepted[idx - 1].dep.t if idx > 0 else None
                    start = h.t if prev_dep is None else max(h.t, prev_dep)
                    waiting = {len(und) - 1} if start < a.t else {len(und) - 1, len(und)}
                want = set(w >= q - 1 for w in waiting)
                if any(w in (q - 1, q - 2) for w in waiting):
                    near = True
            if cfg.get("mailbox") and any(x.dep is not None and x.dep.t == a.t for x in accepted):
                want = {True, False}      # behind a mailbox the departure is logged late: coincidences are not judged here
            if bool(dropped) not in want:
                res.bad("C09.drop", "%s:%s" % (tag, "refused-within-limit" if dropped else "accepted-beyond-limit"),
                        "arrival %d size %d at t=%r: qlimit=%r held/waiting=%s" % (k, a.size, a.t, q, [(x.i, x.size) for x in und]))
                return res
        else:
            avg, p, draw, impl_avg = rec.red[k]
            res.ev("C09.red")
            if impl_avg is not None and abs(impl_avg - avg) > 1e-12:
                res.bad("C09.red", tag + ":average-differs-from-EWMA", "arrival %d: average_queue_size %r, reference %r" % (k, impl_avg, avg))
                return res
            if p <= 0:
                want = False
            elif p >= 1:
                want = True
            else:
                near = True
                if draw is None:
                    res.bad("C09.red", tag + ":no-draw-between-thresholds", "arrival %d avg %r" % (k, avg))
                    return res
                want = draw < p
            if bool(dropped) != want:
                region = "below-min" if p <= 0 else ("at-or-above-qlimit" if avg >= q else ("between-max-and-qlimit" if avg >= cfg["maxth"] else "between-min-and-max"))
                res.bad("C09.red", "%s:%s:%s" % (tag, region, "dropped" if dropped else "passed"),
                        "arrival %d avg=%r p=%r draw=%r" % (k, avg, p, draw))
                return res
        if not dropped:
            accepted.append(a)
    if not near and mode != "none":
        res.nontrivial = False
    res.ev("C09.count")
    if port.packets_received != len(arrs) or port.packets_dropped != sum(rec.dec):
        res.bad("C09.count", tag + ":received!=accepted+dropped", "received %d dropped %d arrivals %d" % (port.packets_received, port.packets_dropped, len(arrs)))
        return res
    # ---- departures -------------------------------------------------------------------------
    res.ev("C09.once")
    if any(d.arr is None for d in net.deps):
        res.bad("C09.once", tag + ":foreign-object-at-output", "")
        return res
    got = [d.arr.i for d in net.deps]
    want_order = [a.i for a in accepted]
    if mon is None and got != want_order:
        shape = "duplicated" if len(set(got)) < len(got) else ("dropped-packet-forwarded" if set(got) - set(want_order) else ("accepted-packet-lost" if set(want_order) - set(got) else "reordered"))
        res.bad("C09.once", "%s:%s" % (tag, shape), "forwarded %s accepted %s" % (got, want_order))
        return res
    prev = None
    svc_times = []
    for a in accepted:
        if a.dep is None:
            break
        res.ev("C09.depart")
        start = a.t if prev is None else max(a.t, prev)
        end = start + (8.0 * a.size / rate if rate > 0 else 0)
        svc_times.append((start, end))
        if a.dep.t != end:
            res.bad("C09.depart", "%s:rate=%s:%s" % (tag, "0" if rate == 0 else "pos", "late" if a.dep.t > end else "early"),
                    "packet %d left at %r, reference %r" % (a.i, a.dep.t, end))
            return res
        prev = a.dep.t
    res.ev("C09.occ")
    if rec.occ_bad:
        w = rec.occ_bad
        res.bad("C09.occ", "%s:rate=%s:byte_size-differs-from-bytes-held" % (tag, "0" if rate == 0 else "pos"),
                "%s at t=%r: byte_size %r, held %r" % (w[0], w[3], w[1], w[2]))
        return res
    if kind == "port":
        for d in net.deps:
            res.ev("C09.stamp")
            if d.pkt.perhop_time.get(EID) != d.arr.t:
                res.bad("C09.stamp", tag + ":per-hop-arrival-time-missing-or-wrong", "packet %d: perhop_time %r arrival %r" % (d.arr.i, d.pkt.perhop_time, d.arr.t))
                return res
    if mon is not None:
        incl = cfg["mon"]
        exp_n, exp_b = [], []
        if cfg.get("coincide"):
            check_coincident(net, accepted, mon, horizon, res, tag)
            return res
        t = 0.25
        while t <= horizon:
            nheld = [x for x in accepted if x.t < t and (x.dep is None or x.dep.t > t)]
            inserv = [x for k, x in enumerate(accepted) if k < len(svc_times) and svc_times[k][0] < t < svc_times[k][1]]
            if incl:
                exp_n.append(len(nheld)); exp_b.append(sum(x.size for x in nheld))
            else:
                exp_n.append(len(nheld) - len(inserv)); exp_b.append(sum(x.size for x in nheld) - sum(x.size for x in inserv))
            t += 1
        res.ev("C09.monitor")
        mt = "%s:rate=%s:%s" % (tag, "0" if rate == 0 else "pos", "service-included" if incl else "service-excluded")
        if list(mon.sizes) != exp_n:
            res.bad("C09.monitor", mt + ":packet-samples", "got %s want %s" % (list(mon.sizes), exp_n))
        elif list(mon.sizes_byte) != exp_b:
            res.bad("C09.monitor", mt + ":byte-samples", "got %s want %s" % (list(mon.sizes_byte), exp_b))
    return res


def check_coincident(net, accepted, mon, horizon, res, tag):
    """service-included samples at integer instants: the sample must equal the occupancy before, between or after the
    arrivals and departures of that very instant (in their observed order)"""
    evs = sorted([(a.seq, a.t, +1, a.size) for a in accepted] + [(a.dep.seq, a.dep.t, -1, a.size) for a in accepted if a.dep is not None])
    t = 1
    k = 0
    while t <= horizon and k < len(mon.sizes):
        n = b = 0
        for (seq, tt, sign, size) in evs:
            if tt < t:
                n += sign; b += sign * size
        okn, okb = {n}, {(n, b)}
        for (seq, tt, sign, size) in evs:
            if tt == t:
                n += sign; b += sign * size
                okb.add((n, b))
        res.ev("C09.monitor")
        got = mon.sizes_byte[k]
        if got not in set(x[1] for x in okb):
            res.bad("C09.monitor", tag + ":rate=pos:service-included:sample-at-an-event-instant-matches-no-occupancy-of-that-instant",
                    "t=%r: sampled %r bytes, byte occupancies passed through at that instant %r" % (t, got, sorted(set(x[1] for x in okb))))
            return
        t += 1
        k += 1
