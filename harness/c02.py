"""C02 - every waiter gets an event's outcome exactly once; failures are never lost."""
from mc import kclient as KC
from mc.explore import Result

PROPERTY = "C02"
CLAUSES = ["C02.once", "C02.value", "C02.processed", "C02.retrigger", "C02.term", "C02.crash"]
RULE = ("every process program of <= D executed instructions over {return, raise, value-carrying timeout(0|1), wait on a "
        "shared event catching/not catching, succeed/fail it, register a plain callback on it, join a peer catching/not "
        "catching, spawn; a third alphabet adds falsy return values (0, '', False), a BaseException that is not an Exception and the exported StopProcess; a fourth one payloads with a liberal == and exception objects as success values; one long run (1200 processed events consumed in a row); two configurations attach no probe to process events} with 2 initial and <= 4 processes; non-trivial = some event had >= 2 registered waiters besides "
        "the probe, or failed; distinct = distinct observation logs")
ASSUMPTIONS = [
    "reference 'handled' rule: a failed event is handled iff at least one process is waiting on it when it is processed "
    "(plain callbacks do not handle it); otherwise step()/run() must raise an exception of the same type and args at that instant",
    "exception identity is compared by type and args (the kernel hands every waiter its own copy)",
]
OPS = ["ret", "raise", ("T", 0), ("T", 1), ("W", 0, True), ("W", 0, False), ("S", 0), ("F", 0), ("J", True), ("J", False),
       "Sp", ("CB", 0)]
# third alphabet: falsy return values and exceptions that are not Exception subclasses
OPS3 = ["ret", "ret0", "raise", "raiseB", "raiseSP", "raiseIE", ("T", 0), ("T", 1), ("J", True), ("J", False), ("W", 0, True), ("S", 0), "Sp"]
# fourth alphabet: payloads with a liberal ==, exception objects as values of successful events
OPS4 = ["ret", ("T", 0), ("W", 0, True), ("S", 0), ("SX", 0), ("F", 0), ("J", True), ("CB", 0)]
OPS2 = ["ret", "raise", ("T", 0), ("W", 0, True), ("W", 1, False), ("S", 0), ("F", 0), ("S", 1), ("F", 1), ("J", True), ("CB", 1)]
# fifth alphabet: a chain reaction - event 1 takes over the outcome of event 0 (Event.trigger used as a callback)
OPS5 = ["ret", ("T", 0), ("W", 0, True), ("W", 1, True), ("W", 1, False), ("S", 0), ("F", 0), ("CH", 0, 1), ("CB", 1)]
MAP = {"once": "C02.once", "value": "C02.value", "processed": "C02.processed", "retrigger": "C02.retrigger",
       "term": "C02.term", "crash": "C02.crash"}


def plan(tier, seed):
    quick = tier == "quick"
    d = 6 if quick else 7
    cfgs = [dict(depth=d, ops=1, nproc=2), dict(depth=d, ops=2, nproc=2), dict(depth=d - 1, ops=1, nproc=3), dict(depth=d - 1, ops=3, nproc=2),
            # process events without any callback of ours: a terminated process must be processed even when nobody waits yet
            dict(depth=d - 1, ops=1, nproc=2, noprobe=1), dict(depth=d - 1, ops=3, nproc=2, noprobe=1),
            dict(depth=d - 1, ops=4, nproc=2, liberal=1), dict(depth=d - 1, ops=4, nproc=2), dict(depth=d - 1, ops=1, nproc=2, duck=1), dict(depth=d, ops=5, nproc=2),
            # failures translated on the way up: `raise Other(...) from received` in every process that does not handle one
            dict(depth=d - 1, ops=1, nproc=2, translate=1), dict(depth=d - 1, ops=3, nproc=2, translate=1),
            # one process consuming 1200 already processed events in a row, then 1200 fresh ones (a single long execution)
            dict(endurance=1200)]
    return {"cfgs": cfgs, "budget": None, "bound": "D<=%d with 2 initial processes (alphabets: one / two shared events; falsy returns + non-Exception BaseException at D-1, both also with unhandled failures re-raised `from` as another exception), D<=%d with 3; <=4 processes" % (d, d - 1)}


def endurance(cfg):
    from onl.sim import Environment
    res = Result()
    n = cfg["endurance"]
    env = Environment()
    got = []

    def worker(i):
        yield env.timeout(0)
        return i

    def gatherer(ws, done):
        yield env.timeout(1)            # by now every worker and `done` have been processed
        for w in ws:
            got.append((yield w))
        for _ in range(n):
            got.append((yield done))
        for i in range(n):
            got.append((yield env.timeout(0, value=-i)))
    ws = [env.process(worker(i)) for i in range(n)]
    done = env.timeout(0, value="done")
    g = env.process(gatherer(ws, done))
    res.ev("C02.value", 3 * n); res.ev("C02.once", 3 * n)
    res.nontrivial = True
    try:
        env.run()
    except BaseException as e:  # noqa
        from mc.net import _where
        res.bad("C02.crash", "long-run:run-raised-%s@%s" % (type(e).__name__, _where(e)), "after %d values: %r" % (len(got), e))
        return res
    res.digest = (len(got),)
    want = list(range(n)) + ["done"] * n + [-i for i in range(n)]
    if got != want:
        k = next((i for i in range(min(len(got), len(want))) if got[i] != want[i]), min(len(got), len(want)))
        res.bad("C02.value", "long-run:waiter-received-a-wrong-value", "%d of %d values, first deviation at %d" % (len(got), len(want), k))
    return res


def execute(ch, cfg):
    if cfg.get("endurance"):
        return endurance(cfg)
    k = KC.K(ch, {1: OPS, 2: OPS2, 3: OPS3, 4: OPS4, 5: OPS5}[cfg["ops"]], cfg["depth"], nproc=cfg["nproc"], reaction=False, probe_procs=not cfg.get("noprobe"),
             liberal_values=bool(cfg.get("liberal")), duck=bool(cfg.get("duck")), translate=bool(cfg.get("translate"))).run()
    res = Result()
    res.digest = k.digest()
    viol, nt = KC.check_delivery(k)
    res.nontrivial = nt
    n = sum(1 for e in k.log if e[3] in ("resume", "probe"))
    for c in CLAUSES:
        res.ev(c, n)
    for (g, shape, msg) in list(k.bad) + viol:
        if g in MAP:
            res.bad(MAP[g], shape, msg)
    return res
