import sys, itertools
sys.argv=['x']
src = open('/tmp/scratch/p8b.py').read()
src = src.split("for d,u in ((4,None)")[0]
exec(src)
from heapq import heappush
import onl.sim.core as core, onl.sim.events as events
from onl.sim.events import NORMAL, URGENT
orig = core.Environment.schedule
def m_noprio(self, event, priority=NORMAL, delay=0):
    heappush(self._queue, (self._now+delay, 1, next(self._eid), event))
def m_lifo(self, event, priority=NORMAL, delay=0):
    heappush(self._queue, (self._now+delay, priority, -next(self._eid), event))
def m_timeout_urgent(self, event, priority=NORMAL, delay=0):
    if type(event).__name__=='Timeout': priority=URGENT
    heappush(self._queue, (self._now+delay, priority, next(self._eid), event))
def m_init_normal(self, event, priority=NORMAL, delay=0):
    if type(event).__name__=='Initialize': priority=NORMAL
    heappush(self._queue, (self._now+delay, priority, next(self._eid), event))
for name,m in (('noprio',m_noprio),('lifo',m_lifo),('timeout_urgent',m_timeout_urgent),('init_normal',m_init_normal)):
    core.Environment.schedule = m
    for d in (2,3,4):
        n,b = explore(d)
        if b: print(name,'caught at depth',d,'in',len(b),'of',n,'first',b[0][0], b[0][1]); break
    else: print(name,'MISSED')
core.Environment.schedule = orig
