import sys, itertools, io, contextlib
sys.path.insert(0,'/tmp/scratch/repo')
from onl.sim import Environment
from onl.packet import Flow, TCPPacketGenerator, TCPSink, TCPReno, TCPCubic
import onl; print(onl.__file__)
class Path:
    def __init__(s, env, delay, drops, log, name):
        s.env=env; s.delay=delay; s.drops=set(drops); s.n=0; s.out=None; s.log=log; s.name=name
    def put(s, p):
        i=s.n; s.n+=1
        s.log.append((s.env.now, s.name, i, p.packet_id, getattr(p,'ack',None), i in s.drops))
        if i in s.drops: return
        def go(env, p):
            yield env.timeout(s.delay); s.out.put(p)
        s.env.process(go(s.env,p))
def run(nseg, ddrops, adrops, cc=TCPReno, delay=1, rtt=4, horizon=400):
    env=Environment(); log=[]
    flow=Flow(0,'s','d',start_time=0,finish_time=1e9,size=nseg*512)
    snd=TCPPacketGenerator(env,flow,cc(),rtt_estimate=rtt)
    rcv=TCPSink(env)
    d=Path(env,delay,ddrops,log,'D'); a=Path(env,delay,adrops,log,'A')
    snd.out=d; d.out=rcv; rcv.out=a; a.out=snd
    try:
        env.run(until=horizon)
    except BaseException as e:
        return ('RAISED', type(e).__name__, str(e)[:80], env.now, log[-3:])
    return ('ok', snd.last_ack, snd.next_seq, rcv.recv_buffer, d.n, a.n)
print(run(3, [], []))
for nseg in (1,2,3):
  for dd in ([],[0],[1],[0,1],[2]):
    for ad in ([],[0],[1],[0,1]):
        r = run(nseg, dd, ad)
        bad = r[0]!='ok' or r[1]!=nseg*512 or r[3]!=[[0,nseg*512]]
        if bad: print(nseg, dd, ad, r)
