"""C13 - static priority always serves the highest-priority backlogged flow."""
from harness import sched as S
from mc import explore

PROPERTY = "C13"
CLAUSES = ["C13.noraise", "C13.once", "C13.time", "C13.fifo", "C13.strict"]
RULE = ("every arrival workload of <= N packets (gap x flow x size per packet, or stop) over every priority table; "
        "non-trivial = at some service start packets of >= 2 different priority levels were definitely waiting; "
        "distinct = distinct (workload, departure order, instants)")
ASSUMPTIONS = [
    "D/M rule: arrivals tapped before the previous departure's tap (or in the driver step that woke an idle server) "
    "are definitely waiting at the service start; later same-instant arrivals may or may not have been seen",
    "positive priorities (whole and fractional); dyadic sizes/rates; with a non-identity flow2class the table is still read per flow",
]


def plan(tier, seed):
    quick = tier == "quick"
    cfgs = []
    two = [[[0, 1], [1, 2]], [[0, 2], [1, 1]], [[0, 3], [1, 3]], [[1, 5], [0, 1]]]
    three = [[[0, 1], [1, 2], [2, 3]], [[0, 3], [1, 2], [2, 1]], [[0, 2], [1, 3], [2, 1]], [[0, 1], [1, 2], [2, 2]], [[0, 2], [1, 1], [2, 2]]]
    n2 = 4 if quick else 5
    for tab in two:
        for order in (0, 1):
            for rate in (8, 16):
                if quick and (rate == 16) != (order == 1):
                    continue
                cfgs.append(dict(sched="SP", table=tab, rate=rate, flows=[0, 1], sizes=[1, 2], N=n2 - 1, gaps="G5", order=order))
        cfgs.append(dict(sched="SP", table=tab, rate=8, flows=[0, 1], sizes=[1, 2], N=n2, gaps="G3", order=0))
    for tab in three:
        cfgs.append(dict(sched="SP", table=tab, rate=8, flows=[0, 1, 2], sizes=[1, 2], N=3 if quick else 4, gaps="G5", order=0))
        cfgs.append(dict(sched="SP", table=tab, rate=8, flows=[0, 1, 2], sizes=[1], N=5 if quick else 6, gaps=["S", 1], order=1))
    # ties below the top level, with transmissions long enough for an arrival to fall inside one
    for tab in ([[0, 3], [1, 2], [2, 2]], [[2, 2], [1, 2], [0, 3]], [[0, 1], [1, 1], [2, 5]]):
        cfgs.append(dict(sched="SP", table=tab, rate=8, flows=[0, 1, 2], sizes=[2], N=4 if quick else 5, gaps=["S", 1, 2], order=0))
    cfgs.append(dict(sched="SP", table=[[0, 1], [1, 2]], rate=8, flows=[0, 1], sizes=[1.0, 2.5], N=n2 - 1, gaps="G3", order=0))
    # priorities are numbers, not necessarily whole ones; the table order must not matter
    for tab in ([[0, 1.2], [1, 1.8]], [[0, 1.8], [1, 1.2]], [[0, 0.5], [1, 0.25]]):
        cfgs.append(dict(sched="SP", table=tab, rate=8, flows=[0, 1], sizes=[1, 2], N=n2 - 1, gaps="G3", order=0))
    # a flow-to-class function is only an annotation for SP: service still follows the flow's own priority
    for tab in ([[0, 1], [1, 3], [2, 2]], [[0, 3], [1, 1], [2, 2]]):
        cfgs.append(dict(sched="SP", table=tab, rate=8, flows=[0, 1, 2], sizes=[1], N=4 if quick else 5, gaps=["S", 1], order=0, map="mod2"))
    # a second live SP with other priorities in the same program; sizes that are not binary fractions
    cfgs.append(dict(sched="SP", table=[[0, 1], [1, 2], [2, 3]], rate=8, flows=[0, 1, 2], sizes=[1], N=4 if quick else 5, gaps=["S", 1], order=0, twin=1))
    cfgs.append(dict(sched="SP", table=[[0, 2], [1, 1], [2, 3]], rate=8, flows=[0, 1, 2], sizes=[1000.1, 1000.2], N=4 if quick else 5, gaps=["S", 1000, 3000], order=0))
    # every configuration once more with long fixed workloads (state that only breaks after hundreds of packets)
    nlong = explore.add_long(cfgs, 300 if quick else 1000)
    ndebug = explore.add_debug_variants(cfgs)      # the same with every element constructed with debug=True
    return {"cfgs": cfgs, "budget": None,
            "bound": ("%d long fixed workloads (periodic arrival patterns); %d configurations repeated with debug=True; " % (nlong, ndebug)) + ("2 flows: N<=%d full menu, N<=%d reduced; 3 flows: N<=%d full menu, N<=%d on {same,+1} (deep backlogs)" % (n2 - 1, n2, 3 if quick else 4, 5 if quick else 6))}


def execute(ch, cfg):
    run = S.SchedRun(ch, cfg, watch_counters=False)
    res = S.new_result(run)
    net = run.net
    if not S.check_common(run, res, "C13"):
        return res
    prio = {int(k): v for k, v in cfg["table"]}
    for k, d in enumerate(net.deps):
        busy, D, M = net.decision_sets(k)
        res.ev("C13.strict")
        if d.arr not in D and d.arr not in M:
            res.bad("C13.strict", "SP:served-packet-not-waiting", "departure %d" % k)
            break
        if D:
            top = max(prio[a.flow] for a in D)
            if len(set(prio[a.flow] for a in D)) >= 2:
                res.nontrivial = True
            if prio[d.arr.flow] < top:
                res.bad("C13.strict", "SP:lower-priority-served-while-higher-waiting",
                        "service start of departure %d (t=%r): served flow %d (prio %d) while flow(s) %s with priority %d waited" % (
                            k, d.t - 8.0 * d.arr.size / cfg["rate"], d.arr.flow, prio[d.arr.flow],
                            sorted(set(a.flow for a in D if prio[a.flow] == top)), top))
                break
    return res
