"""C12 - schedulers are work-conserving, non-preemptive, rate-exact, per-flow FIFO; counters and
Monitor samples equal the packets waiting or in transmission."""
from harness import sched as S
from mc import explore
from mc.explore import Result

PROPERTY = "C12"
CLAUSES = ["C12.noraise", "C12.once", "C12.time", "C12.fifo", "C12.counters", "C12.inservice", "C12.monitor"]
RULE = ("every arrival workload of <= N packets per configuration (per packet: gap in {same driver step, same "
        "instant next kernel step, +1, +2, long idle} x flow x size, or stop) fed to the real scheduler; an execution "
        "is non-trivial when at some service decision >= 2 packets were waiting or an arrival coincided with a "
        "transmission end; distinct = distinct (workload, departure order, departure instants)")
ASSUMPTIONS = [
    "rates/sizes chosen so every float operation in the implementation is exact (dyadic); one configuration per scheduler uses a non-integral rate (2.5 / 2500.5) with the reference performing the same float operations",
    "flow ids are the configured non-negative ints; SP is driven with the identity flow-to-class map only "
    "(its table is keyed by flow id in this code base)",
    "Monitor sampling instants (0.25 + k) never coincide with arrivals or departures",
]


def plan(tier, seed):
    cfgs = []
    quick = tier == "quick"
    nfull = 3 if quick else 4
    tables = {
        "SP": [[[0, 1], [1, 2]], [[0, 2], [1, 1]], [[0, 1], [1, 1]]],
        "WFQ": [[[0, 1], [1, 2]], [[0, 2], [1, 1]]],
        "VC": [[[0, 1], [1, 2]], [[0, 2], [1, 1]], [[0, 0], [1, 1]]],
        "DRR": [[[0, 1], [1, 2]], [[0, 2], [1, 2]]],
        "RR": [[[0, 1], [1, 1]], [[1, 1], [0, 1]]],
        "WRR": [[[0, 1], [1, 2]], [[0, 2], [1, 1]]],
    }
    for kind, tabs in tables.items():
        for ti, tab in enumerate(tabs):
            for rate in ([8] if quick and ti else [8, 16]):
                sizes = [1, 2]
                r = rate
                if kind == "DRR":
                    sizes = [1000, 2000]
                    r = rate * 1000
                for order in (0, 1):
                    if quick and order == 1 and ti:
                        continue
                    cfgs.append(dict(sched=kind, table=tab, rate=r, flows=[0, 1], sizes=sizes, N=nfull,
                                     gaps="G5", order=order, map="id", L=50))
        # deeper, reduced menu
        cfgs.append(dict(sched=kind, table=tabs[0], rate=(8000 if kind == "DRR" else 8), flows=[0, 1],
                         sizes=([1000, 2000] if kind == "DRR" else [1, 2]), N=nfull + 1, gaps="G3", order=1, map="id"))
        # monitors
        for mon in ("incl", "excl"):
            cfgs.append(dict(sched=kind, table=tabs[0], rate=(8000 if kind == "DRR" else 8), flows=[0, 1],
                             sizes=([1000, 2000] if kind == "DRR" else [1, 2]), N=3 if quick else 4,
                             gaps=["S", "N", 1, 2], order=0, map="id", mon=mon))
        cfgs.append(dict(sched=kind, table=tabs[0], rate=(8000 if kind == "DRR" else 8), flows=[0, 1],
                         sizes=([1000, 2000] if kind == "DRR" else [1, 2]), N=3, gaps=["S", 1, 2], order=0, map="id", noout=1))
        # flow ids above the small-integer cache: equal ids are not identical objects
        for mon in (None, "excl"):
            c = dict(sched=kind, table=[[1000, tabs[0][0][1]], [1001, tabs[0][1][1]]], rate=(8000 if kind == "DRR" else 8), flows=[1000, 1001],
                     sizes=([1000, 2000] if kind == "DRR" else [1, 2]), N=3, gaps=["S", "N", 1, 2], order=0, map="id")
            if mon:
                c["mon"] = mon
            cfgs.append(c)
        # a rate that is not a whole number (same float arithmetic in the reference), and for DRR a packet of more than two quanta
        cfgs.append(dict(sched=kind, table=tabs[0], rate=(2500.5 if kind == "DRR" else 2.5), flows=[0, 1],
                         sizes=([1000, 4000] if kind == "DRR" else [1, 2]), N=nfull, gaps="G3", order=0, map="id"))
        # next hop is a kernel Store; a time axis scaled by 2^-30 (Gbit/s rates, nanosecond gaps); a float-typed size
        cfgs.append(dict(sched=kind, table=tabs[0], rate=(8000 if kind == "DRR" else 8), flows=[0, 1],
                         sizes=([1000, 2000] if kind == "DRR" else [1, 2]), N=nfull, gaps="G3", order=0, map="id", mailbox=1))
        cfgs.append(dict(sched=kind, table=tabs[0], rate=(8000 if kind == "DRR" else 8) * 2 ** 30, flows=[0, 1],
                         sizes=([1000, 2000] if kind == "DRR" else [1, 2]), N=nfull, gaps="G3", order=0, map="id", scale=2.0 ** -30))
        cfgs.append(dict(sched=kind, table=tabs[0], rate=(8000 if kind == "DRR" else 8), flows=[0, 1],
                         sizes=([1000, 2000.0] if kind == "DRR" else [1, 2.0]), N=nfull, gaps=["S", 1], order=0, map="id"))
        # two instances of the scheduler in one program (class-level or module-level state would couple them)
        cfgs.append(dict(sched=kind, table=tabs[0], rate=(8000 if kind == "DRR" else 8), flows=[0, 1],
                         sizes=([2000, 4000] if kind == "DRR" else [1, 2]), N=nfull, gaps="G3", order=0, map="id", twin=1))
        # several flows mapped onto one class
        if kind in ("WFQ", "VC", "DRR"):
            cfgs.append(dict(sched=kind, table=[[0, 2]], rate=(8000 if kind == "DRR" else 8), flows=[0, 1],
                             sizes=([1000, 2000] if kind == "DRR" else [1, 2]), N=nfull, gaps="G5", order=0, map="one"))
            cfgs.append(dict(sched=kind, table=[[0, 1], [1, 2]], rate=(8000 if kind == "DRR" else 8), flows=[0, 1],
                             sizes=([1000, 2000] if kind == "DRR" else [1, 2]), N=nfull, gaps="G3", order=0, map="swap"))
            cfgs.append(dict(sched=kind, table=[[1000, 1], [1001, 2]], rate=(8000 if kind == "DRR" else 8), flows=[0, 1],
                             sizes=([1000, 2000] if kind == "DRR" else [1, 2]), N=nfull, gaps="G3", order=0, map="big"))
        if not quick:
            cfgs.append(dict(sched=kind, table=[[0, 1], [1, 2], [2, 1]], rate=(8000 if kind == "DRR" else 8),
                             flows=[0, 1, 2], sizes=([1000, 2000] if kind == "DRR" else [1, 2]), N=4, gaps="G3",
                             order=0, map="id"))
            cfgs.append(dict(sched=kind, table=tabs[0], rate=(8000 if kind == "DRR" else 8), flows=[0, 1],
                             sizes=([1000, 2000] if kind == "DRR" else [1, 2]), N=6, gaps=["S", 1], order=0, map="id"))
    # bursts of one flow: with a zero vtick all of them carry one stamp
    cfgs.append(dict(sched="VC", table=[[0, 0], [1, 1]], rate=8, flows=[0, 1], sizes=[1], N=6 if quick else 7, gaps=["S", 1], order=0, map="id"))
    # ... and with packet ids that FALL within the flow (retransmitted / resequenced traffic): per-flow FIFO is about arrival order
    cfgs.append(dict(sched="VC", table=[[0, 0], [1, 1]], rate=8, flows=[0, 1], sizes=[1], N=6 if quick else 7, gaps=["S", 1], order=0, map="id", ids_down=1))
    for kind, tabs in tables.items():
        cfgs.append(dict(sched=kind, table=tabs[0], rate=(8000 if kind == "DRR" else 8), flows=[0, 1],
                         sizes=([1000, 2000] if kind == "DRR" else [1, 2]), N=nfull - 1, gaps="G3", order=0, map="id", ids_down=1))
    for kind, tabs in tables.items():
        cfgs.append(dict(sched=kind, table=tabs[0], rate=(8000 if kind == "DRR" else 8), flows=[0, 1],
                         sizes=([1000, 2000] if kind == "DRR" else [1, 2]), N=0, gaps="G3", order=0, map="id", endurance=3000))
    # every configuration once more with long fixed workloads (state that only breaks after hundreds of packets)
    nlong = explore.add_long(cfgs, 300 if quick else 800, skip=lambda c: c.get("endurance"))
    ndebug = explore.add_debug_variants(cfgs)      # the same with every element constructed with debug=True
    return {"cfgs": cfgs, "budget": None,
            "bound": ("%d long fixed workloads (periodic arrival patterns); %d configurations repeated with debug=True; " % (nlong, ndebug)) + ("one fixed workload of 3000 packets per scheduler; N<=%d full menu (21/packet), N<=%d reduced menu%s; 6 schedulers x tables x rates x creation order; "
                     "monitor in/excl; flow->class maps identity/all-to-one/swap" % (nfull, nfull + 1, "" if quick else ", N<=6 on {same,+1}; 3 flows N<=4"))}


class Fixed:
    """a chooser-like object that replays a fixed workload (no branching)"""

    def __init__(self, seq):
        self.seq = seq; self.i = 0

    def choose(self, n, label=None, free=False):
        v = self.seq[self.i] if self.i < len(self.seq) else 0
        self.i += 1
        return v


def execute(ch, cfg):
    if cfg.get("endurance"):
        # menu index: 1 + gap*|F||S| + flow*|S| + size ; pattern: bursts of 3 then a pause, flows and sizes alternating
        n = cfg["endurance"]
        nf, ns = len(cfg["flows"]), len(cfg["sizes"])
        seq = []
        for i in range(n):
            gap = 0 if i % 3 else (1 if i % 2 else 2)        # G3 = [S, 1, 2]
            if i == 0:
                gap = 0
            seq.append(1 + gap * nf * ns + (i % nf) * ns + ((i // 2) % ns))
        cfg = dict(cfg, N=n)
        ch = Fixed(seq)
        run = S.SchedRun(ch, cfg, watch_counters=False)
        res = S.new_result(run)
        res.digest = (len(run.net.deps), run.error)
        res.nontrivial = True
        S.check_common(run, res, "C12")
        return res
    if cfg.get("noout"):
        # a scheduler without a next hop: its counters still say what is waiting or in transmission - nothing, in the end
        run = S.SchedRun(ch, cfg, watch_counters=False)
        res = Result()
        res.digest = (tuple((a.t, a.flow, a.size) for a in run.net.arrs), run.error)
        res.nontrivial = len(run.net.arrs) >= 2
        res.ev("C12.noraise"); res.ev("C12.counters")
        s = run.sched
        if run.error:
            res.bad("C12.noraise", "%s(no-next-hop):%s@%s" % (cfg["sched"], run.error[0], run.error[1]), run.error)
        elif any(s.size(f) != 0 or s.byte_size(f) != 0 for f in cfg["flows"]) or s.total_packets != 0:
            res.bad("C12.counters", "%s(no-next-hop):counters-not-drained-when-everything-was-transmitted" % cfg["sched"],
                    "sizes %r bytes %r total %r after %d arrivals" % ([s.size(f) for f in cfg["flows"]], [s.byte_size(f) for f in cfg["flows"]], s.total_packets, len(run.net.arrs)))
        return res
    run = S.SchedRun(ch, cfg)
    res = S.new_result(run)
    net = run.net
    kind = cfg["sched"]
    ok = S.check_common(run, res, "C12")
    # counters (independent of timing)
    res.ev("C12.counters", 1)
    if run.cbad and not run.error:
        w = run.cbad[0]
        res.bad("C12.counters", "%s:%s-wrong-%s" % (kind, w[1], w[0]), "flow %s reported %s, ledger says %s" % (w[2], w[3], w[4]))
    if ok:
        times = S.service_times(net, cfg["rate"])
        # packet_in_service at settled points
        for (t, pis) in run.settled_obs:
            res.ev("C12.inservice")
            want = None
            for k, d in enumerate(net.deps):
                if times[k][0] <= t < d.t:
                    want = d.arr.pkt
            if want is not pis and t < run.horizon:
                res.bad("C12.inservice", "%s:packet_in_service-%s" % (kind, "missing" if pis is None else "wrong"), "t=%r" % t)
                break
        if run.mon is not None:
            check_monitor(run, res, times)
        # non-triviality
        for k in range(len(net.deps)):
            busy, D, M = net.decision_sets(k)
            if len(D) + len(M) >= 2 or (busy and any(a.t == net.deps[k - 1].t for a in D + M)):
                res.nontrivial = True
                break
    return res


def check_monitor(run, res, times):
    net, cfg, mon = run.net, run.cfg, run.mon
    kind = cfg["sched"]
    incl = cfg["mon"] == "incl"
    taus = []
    t = 0.25
    while t <= run.horizon:
        taus.append(t)
        t += 1
    for f in cfg["flows"]:
        exp_n, exp_b = [], []
        firsts = [a.t for a in net.arrs if a.flow == f]
        for tau in taus:
            n = b = 0
            for a in net.arrs:
                if a.flow == f and a.t < tau and not ((a.dep.t if a.dep else float('inf')) < tau):
                    n += 1
                    b += a.size
            if not incl:
                for k, d in enumerate(net.deps):
                    if d.arr.flow == f and times[k][0] < tau < d.t:
                        n -= 1
                        b -= d.arr.size
            exp_n.append(n)
            exp_b.append(b)
        got_n = list(mon.sizes.get(f, []))
        got_b = list(mon.byte_sizes.get(f, []))
        res.ev("C12.monitor")
        must = sum(1 for tau in taus if firsts and tau > firsts[0])
        tag = "%s:%s" % (kind, "service-included" if incl else "service-excluded")
        if len(got_n) < must or len(got_n) > len(taus) or len(got_b) != len(got_n):
            res.bad("C12.monitor", tag + ":sample-count", "flow %s: %d samples, expected between %d and %d" % (f, len(got_n), must, len(taus)))
            return
        if got_n and got_n != exp_n[len(exp_n) - len(got_n):]:
            res.bad("C12.monitor", tag + ":packet-samples", "flow %s got %s want %s" % (f, got_n, exp_n[len(exp_n) - len(got_n):]))
            return
        if got_b and got_b != exp_b[len(exp_b) - len(got_b):]:
            res.bad("C12.monitor", tag + ":byte-samples", "flow %s got %s want %s" % (f, got_b, exp_b[len(exp_b) - len(got_b):]))
            return
