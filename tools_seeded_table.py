#!/venv/bin/python
"""Regenerates the detection table in DESIGN.md (between the SEEDED-TABLE markers) from seeded/*/meta.json."""
import glob, json, os, re
HERE = os.path.dirname(os.path.abspath(__file__))
rows = []
for f in sorted(glob.glob(os.path.join(HERE, "seeded", "*", "meta.json"))):
    m = json.load(open(f))
    name = os.path.basename(os.path.dirname(f))
    patch = open(os.path.join(os.path.dirname(f), "patch.diff")).read()
    files = sorted(set(re.findall(r"^\+\+\+ b/(\S+)", patch, re.M)))
    need = (m.get("needs_to_manifest") or "").replace("\n", " ").replace("|", "/")
    need = re.sub(r"\s+", " ", need)[:230]
    caught = ", ".join(m["caught_by"]) if m["caught_by"] else "**missed**"
    shape = ""
    for c in m["caught_by"][:1]:
        v = m["checks"][c]["violations"]
        if v:
            mm = re.search(r"clause=(\S+) shape=(\S+)", v[0])
            if mm:
                shape = "%s `%s`" % (mm.group(1), mm.group(2)[:70])
    hist = m.get("history", [])
    first = "caught" if (not hist and m["caught_by"]) or (hist and hist[0].get("caught_by")) else "missed"
    if not hist and not m["caught_by"]:
        first = "missed"
    rows.append("| %s | %s | %s | %s | %s | %s | %s |" % (name, ", ".join(os.path.basename(x) for x in files), "yes" if m["valid"] else "no", first, caught, shape, need))
table = ["| change | file | confirmed (suite passes, demo fails) | first evaluation | now caught by | first clause / shape | what it needs to manifest (author's words, abridged) |",
         "|---|---|---|---|---|---|---|"] + rows
n = len(rows); c = sum(1 for r in rows if "**missed**" not in r)
f1 = sum(1 for r in rows if "| caught |" in r)
text = "\n".join(table) + "\n\n%d changes archived, %d caught by at least one check (quick tier); %d of them were already caught at their first evaluation, the others after the harness extensions described above.\n" % (n, c, f1)
p = os.path.join(HERE, "DESIGN.md")
s = open(p).read()
if "<!-- SEEDED-TABLE -->" in s:
    if "<!-- /SEEDED-TABLE -->" in s:
        s = re.sub(r"<!-- SEEDED-TABLE -->.*?<!-- /SEEDED-TABLE -->", "<!-- SEEDED-TABLE -->\n" + text.replace("\\", "\\\\") + "<!-- /SEEDED-TABLE -->", s, flags=re.S)
    else:
        s = s.replace("<!-- SEEDED-TABLE -->", "<!-- SEEDED-TABLE -->\n" + text + "<!-- /SEEDED-TABLE -->")
    open(p, "w").write(s)
print("%d rows, %d caught" % (n, c))
