import io, contextlib
from onl.sim import *
def trial(name, f):
    try: print(name, '->', f())
    except BaseException as e: print(name, 'RAISED', type(e).__name__, e)

def until_waiter():
    env = Environment(); ev = env.event(); log=[]
    def waiter(env):
        v = yield ev; log.append(('w', env.now, v))
    def trig(env):
        yield env.timeout(1); ev.succeed('x')
    env.process(waiter(env)); env.process(trig(env))
    r = env.run(until=ev); log.append(('ret', env.now, r)); env.run(); return log
trial('until=event; waiter registered after run()', until_waiter)

def until_proc():
    env = Environment(); log=[]
    def child(env):
        yield env.timeout(1); return 'c'
    def parent(env, c):
        v = yield c; log.append(('p', env.now, v)); yield env.timeout(1); log.append(('p2', env.now))
    c = env.process(child(env)); env.process(parent(env, c))
    r = env.run(until=c); log.append(('ret', env.now, r)); env.run(); return log
trial('until=process; parent joins', until_proc)

def cancel_strand():
    env = Environment(); c = Container(env, capacity=10, init=5); log=[]
    def a(env):
        r = c.put(8)
        res = yield r | env.timeout(1)
        if r not in res: r.cancel(); log.append(('a cancel', env.now))
    def b(env):
        yield env.timeout(0.5)
        yield c.put(3); log.append(('b put ok', env.now))
    env.process(a(env)); env.process(b(env)); env.run(until=10); return log, c.level, len(c.put_queue)
trial('container cancel head', cancel_strand)

def store_cancel():
    env = Environment(); s = Store(env, capacity=1); log=[]
    def a(env):
        yield s.put('i0')
        g1 = s.get()  # immediate
        yield g1
        g2 = s.get()  # blocks
        yield env.timeout(1); g2.cancel()
    env.process(a(env)); env.run(until=5); return log, s.items, len(s.get_queue)
trial('store', store_cancel)

def filter_strand():
    # FilterStore: put queue blocked? capacity 1, item 'a'; getter wants 'b'; putter of 'b' blocked forever: genuine cannot be satisfied. fine
    return 'n/a'

def preempt_cancel():
    env = Environment(); r = PreemptiveResource(env, 1); log=[]
    def user(env):
        with r.request(priority=2) as q:
            yield q; log.append(('user got', env.now))
            try: yield env.timeout(10)
            except Interrupt as i: log.append(('user preempted', env.now, type(i.cause).__name__))
    def head(env):
        yield env.timeout(1)
        q = r.request(priority=1, preempt=False)
        res = yield q | env.timeout(1)
        if q not in res: q.cancel(); log.append(('head cancel', env.now))
        else: r.release(q)
    def nxt(env):
        yield env.timeout(1)
        yield env.timeout(0)
        q = r.request(priority=1, preempt=True)
        yield q; log.append(('nxt got', env.now)); r.release(q)
    env.process(user(env)); env.process(head(env)); env.process(nxt(env)); env.run(until=30); return log
trial('preemptive cancel head', preempt_cancel)
