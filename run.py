#!/venv/bin/python
"""Entry point: run.py <Cxx> [--tier quick|thorough] [--replay FILE]"""
import os
import sys

sys.path.insert(0, os.path.dirname(os.path.abspath(__file__)))
sys.dont_write_bytecode = True
from mc import runner  # noqa: E402

if __name__ == "__main__":
    sys.exit(runner.main())
