"""Common driver for the scheduler properties (C12-C15): build a real scheduler, feed it an
enumerated workload through taps, single-step it, hand the ledger to the oracles."""
from mc import net as N
from mc.explore import Result

from onl.scheduler import SP, WFQ, VC, DRR, RR, WRR, Monitor


def build(env, cfg):
    table = {int(k): v for k, v in cfg["table"]}
    rate = cfg["rate"]
    kind = cfg["sched"]
    fmap = cfg.get("map", "id")
    kw = {}
    if fmap == "one":
        kw["flow2class"] = lambda f: 0
    elif fmap == "swap":
        kw["flow2class"] = lambda f: 1 - f
    elif fmap == "mod2":
        kw["flow2class"] = lambda f: f % 2
    elif fmap == "big":
        kw["flow2class"] = lambda f: 1000 + f        # class ids computed on every call (equal, but never the same object)
    if kind == "SP":
        return SP(env, rate, table, **kw)
    if kind == "WFQ":
        return WFQ(env, rate, table, **kw)
    if kind == "VC":
        return VC(env, rate, table, **kw)
    if kind == "DRR":
        return DRR(env, rate, table, **kw)
    if kind == "RR":
        return RR(env, rate, [k for k, _ in cfg["table"]])
    if kind == "WRR":
        return WRR(env, rate, table)
    raise ValueError(kind)


def class_of(cfg, flow):
    m = cfg.get("map", "id")
    if m == "big":
        return 1000 + flow
    return 0 if m == "one" else (1 - flow if m == "swap" else flow)


class SchedRun:
    """One execution: returns self with .net .sched .mon .error and the per-step counter log."""

    def __init__(self, ch, cfg, watch_counters=True, on_settled=None):
        self.cfg = cfg
        net = self.net = N.Net()
        net.ids_down = bool(cfg.get("ids_down"))
        env = net.env
        items = N.menu(N.G5 if cfg.get("gaps", "G5") == "G5" else (N.G3 if cfg["gaps"] == "G3" else cfg["gaps"]),
                       cfg["flows"], cfg["sizes"])
        holder = {}

        class Front:
            def put(self, pkt):
                holder["s"].put(pkt)
                if "twin" in holder:
                    # a second, independent scheduler of the same kind in the same program gets a copy of everything:
                    # the instance under observation must behave exactly as if it were alone
                    import copy
                    holder["twin"].put(copy.copy(pkt))
        front = Front()
        nmax = cfg["N"]
        scale = cfg.get("scale", 1)
        if cfg.get("order", 0) == 0:
            env.process(net.driver(ch, nmax, items, front, long_gap=cfg.get("L", 50), scale=scale))
            s = build(env, cfg)
        else:
            s = build(env, cfg)
            env.process(net.driver(ch, nmax, items, front, long_gap=cfg.get("L", 50), scale=scale))
        holder["s"] = s
        self.sched = s
        if cfg.get("mailbox"):
            # the next hop is a kernel Store (mailbox idiom) emptied by a consumer process
            from onl.sim import Store
            box = Store(env)
            sink = net.sink()

            def consumer():
                while True:
                    p = yield box.get()
                    sink.put(p)
            env.process(consumer())
            s.out = box
        else:
            s.out = net.sink()
        if cfg.get("noout"):
            s.out = None          # not connected (yet): what is transmitted goes nowhere, the books are kept all the same
        if cfg.get("twin"):
            # same class ids, other weights / priorities, declared in the opposite order
            t2 = build(env, dict(cfg, table=[[k, w * 3 + 1] for k, w in reversed(cfg["table"])]))
            t2.out = type("Null", (), {"put": staticmethod(lambda p: None)})()
            holder["twin"] = t2
        self.mon = None
        self.mon_period = None
        if cfg.get("mon"):
            first = [True]

            def dist():
                if first[0]:
                    first[0] = False
                    return 0.25
                return 1
            self.mon = Monitor(env, s, dist, service_included=(cfg["mon"] == "incl"))
        self.cbad = []          # counter mismatches (where, flow, got, want)
        self.settled_obs = []   # (time, packet_in_service)
        self.on_settled = on_settled
        if watch_counters:
            net.after_put = lambda a: self._counters("after-put")
            after = lambda: self._counters("after-step")
        else:
            after = None
        horizon = cfg.get("horizon")
        if horizon is None:
            horizon = 10 ** 9 if not cfg.get("mon") else (2 * nmax + 2 * nmax + 3)
        self.horizon = horizon
        self.error = net.run(horizon, after_step=after, settled=self._settled)

    def _expected(self):
        cnt, byt = {}, {}
        gone = set(id(d.arr) for d in self.net.deps if d.arr is not None)
        for a in self.net.arrs:
            if id(a) not in gone:
                cnt[a.flow] = cnt.get(a.flow, 0) + 1
                byt[a.flow] = byt.get(a.flow, 0) + a.size
        return cnt, byt

    def _counters(self, where):
        if self.cfg.get("mailbox") and where != "settled":
            return      # the consumer behind the mailbox logs a departure a few kernel steps after it happened
        if self.cbad or self.mon is not None:
            # (reading size(f) registers f in the scheduler's defaultdict counters: with a Monitor attached the harness
            # keeps its hands off, so that the monitor alone decides which flows it has seen)
            return
        s = self.sched
        cnt, byt = self._expected()
        for f in self.cfg["flows"]:
            if s.size(f) != cnt.get(f, 0):
                self.cbad.append((where, "size", f, s.size(f), cnt.get(f, 0)))
            if s.byte_size(f) != byt.get(f, 0):
                self.cbad.append((where, "byte_size", f, s.byte_size(f), byt.get(f, 0)))
        if s.total_packets != sum(cnt.values()):
            self.cbad.append((where, "total_packets", None, s.total_packets, sum(cnt.values())))

    def _settled(self):
        self._counters("settled")
        self.settled_obs.append((self.net.env.now, self.sched.packet_in_service))
        if self.on_settled:
            self.on_settled(self)


def service_times(net, rate):
    """Reference work-conserving single server: for each departure k the expected start and end
    given which packet was (observed to be) served k-th."""
    out = []
    prev_t = None
    gone = set()
    for k, d in enumerate(net.deps):
        a = d.arr
        if a is None:
            out.append(None)
            continue
        und = [x for x in net.arrs if id(x) not in gone]
        if not und:
            out.append(None)
            continue
        if prev_t is not None and any(x.t <= prev_t for x in und):
            start = prev_t
        else:
            start = min(x.t for x in und)
        svc = 8.0 * a.size / rate
        out.append((start, start + svc))
        gone.add(id(a))
        prev_t = d.t
    return out


def check_common(run, res, P):
    """Clauses every scheduler property relies on (conservation, timing, FIFO).  P = clause prefix."""
    net, cfg = run.net, run.cfg
    kind = cfg["sched"]
    if run.error:
        res.ev(P + ".noraise")
        res.bad(P + ".noraise", "%s:%s@%s" % (kind, run.error[0], run.error[1]), run.error)
        return False
    res.ev(P + ".noraise")
    ok = True
    seen = set()
    for d in net.deps:
        res.ev(P + ".once")
        if d.arr is None:
            res.bad(P + ".once", "%s:foreign-object-at-output" % kind, "")
            ok = False
        elif id(d.arr) in seen:
            res.bad(P + ".once", "%s:transmitted-twice" % kind, "packet %d" % d.arr.i)
            ok = False
        else:
            seen.add(id(d.arr))
    if not cfg.get("mon") and len(seen) != len(net.arrs):
        res.bad(P + ".once", "%s:never-transmitted" % kind,
                "arrived %d transmitted %d" % (len(net.arrs), len(seen)))
        ok = False
    if not ok:
        return False
    # timing: exact duration, no overlap, work conservation
    times = service_times(net, cfg["rate"])
    for k, d in enumerate(net.deps):
        res.ev(P + ".time")
        start, end = times[k]
        if d.t < d.arr.t + 8.0 * d.arr.size / cfg["rate"]:
            res.bad(P + ".time", "%s:transmission-starts-before-arrival" % kind, "dep %d" % k)
            return False
        if d.t != end:
            res.bad(P + ".time", "%s:%s" % (kind, "late" if d.t > end else "early"),
                    "departure %d of packet %d at %r, work-conserving reference %r" % (k, d.arr.i, d.t, end))
            return False
    last = {}
    for d in net.deps:
        res.ev(P + ".fifo")
        f = d.arr.flow
        if f in last and last[f] > d.arr.seq:
            res.bad(P + ".fifo", "%s:flow-reordered" % kind, "flow %s" % f)
            return False
        last[f] = d.arr.seq
    return True


def digest(run):
    net = run.net
    return (tuple((d.arr.i if d.arr else -1, d.t) for d in net.deps), run.error,
            tuple((a.t, a.flow, a.size) for a in net.arrs))


def new_result(run):
    res = Result()
    res.digest = digest(run)
    return res
