import sys, time, itertools
REPO = sys.argv[1]
sys.path.insert(0, REPO)
from fractions import Fraction as Fr
from onl.sim import Environment
from onl.packet import Packet
from onl.scheduler import WFQ
import onl; 
class Null:
    def write(s,x): pass
    def flush(s): pass
sys.stdout_real = sys.stdout
GAPS = ['same','next',1,2,7]   # same step, same instant next step, +1, +2, long idle
def run(workload, weights, rate=8):
    env = Environment(); s = WFQ(env, rate, weights); 
    log=[]  # ('A', seq, t, pkt, step) / ('D', seq, t, pkt)
    seq=[0]; step=[0]
    class Sink:
        def put(self, p): seq[0]+=1; log.append(('D',seq[0],env.now,p.packet_id))
    s.out = Sink(); pk={}
    def drv(env):
        for i,(gap,flow,size) in enumerate(workload):
            if gap=='next': yield env.timeout(0); step[0]+=1
            elif gap!='same': yield env.timeout(gap); step[0]+=1
            p = Packet(env.now, size, i, flow_id=flow); pk[i]=p
            seq[0]+=1; log.append(('A',seq[0],env.now,i,step[0]))
            s.put(p)
    env.process(drv(env))
    err=None
    try: env.run(until=200)
    except BaseException as e: err=e
    return log, pk, err
def check(workload, weights, rate=8):
    log, pk, err = run(workload, weights, rate)
    if err: return ('raised', repr(err))
    arr = {e[3]:e for e in log if e[0]=='A'}
    deps = [e for e in log if e[0]=='D']
    if len(deps)!=len(workload): return ('lost', len(deps))
    # reference stamps: process events in seq order; fork on reset ambiguity
    # state: V, last_t, active counts per class, F per class, stamps dict
    def cls(i): return workload[i][1]
    def size(i): return workload[i][2]
    states=[dict(V=Fr(0), last=Fr(0), cnt={}, F={c:Fr(0) for c in weights}, stamp={}, emptied_at=None)]
    def adv(st, t):
        t=Fr(t)
        if st['cnt']:
            st['V'] += (t-st['last'])/sum(weights[c] for c in st['cnt'])
        st['last']=t
    import copy
    waiting=[]  # (pkt) in arrival order
    served=set()
    prev_dep_seq=0; prev_dep_t=None
    # we verify each departure's selection: the selection for departure k happened after tap of departure k-1 (or when idle: after driver step of first arrival)
    events = sorted(log, key=lambda e:e[1])
    # Build selection checks
    # First compute stamps for all reference forks
    for e in events:
        new=[]
        for st in states:
            if e[0]=='A':
                i=e[3]; c=cls(i); t=e[2]
                forks=[st]
                # ambiguity: arrival at same instant as the departure that emptied system -> reset or not
                if st['emptied_at'] is not None and Fr(t)==st['emptied_at'][0]:
                    alt=copy.deepcopy(st)
                    # alt: not reset version kept in st['pre']
                    alt.update(copy.deepcopy(st['emptied_at'][1])); alt['emptied_at']=None
                    forks.append(alt)
                for f in forks:
                    f['emptied_at']=None
                    if not f['cnt']:
                        f['V']=Fr(0); f['F']={c2:Fr(0) for c2 in weights}; f['last']=Fr(t)
                    else: adv(f,t)
                    f['F'][c]=max(f['F'][c], f['V'])+Fr(size(i)*8, rate*weights[c])
                    f['stamp'][i]=f['F'][c]
                    f['cnt'][c]=f['cnt'].get(c,0)+1
                    new.append(f)
            else:
                i=e[3]; c=cls(i); t=e[2]
                adv(st,t)
                st['cnt'][c]-=1
                if st['cnt'][c]==0: del st['cnt'][c]
                if not st['cnt']:
                    pre=dict(V=st['V'], last=st['last'], cnt={c:0}, F=dict(st['F']))
                    # 'not yet emptied' view: class c still active (count 0 -> treat as present)
                    st['emptied_at']=(Fr(t), dict(V=st['V'], last=st['last'], cnt={c:1e-9}, F=dict(st['F'])))
                    st['V']=Fr(0); st['F']={c2:Fr(0) for c2 in weights}
                new.append(st)
        states=new
    # now selection check: for each departure k, D = arrivals with seq < trigger_seq where trigger = seq of dep k-1 if busy else end of driver step containing first waiting arrival
    dep_order=[e[3] for e in deps]
    okany=False; why=None
    for st in states:
        ok=True
        done=set(); prev=None
        for k,e in enumerate(deps):
            i=e[3]; start = Fr(e[2]) - Fr(size(i)*8, rate)
            undeparted=[j for j in arr if j not in done]
            if prev is not None and any(Fr(arr[j][2])<=Fr(prev[2]) for j in undeparted):
                # busy: trigger is prev departure tap
                D=[j for j in undeparted if arr[j][1] < prev[1]]
            else:
                # idle start: first arrival's driver step fully visible
                first=min(undeparted, key=lambda j: arr[j][1])
                D=[j for j in undeparted if arr[j][4]==arr[first][4] and arr[j][2]==arr[first][2]]
                D=[j for j in undeparted if arr[j][1] <= max(arr[x][1] for x in D)]
            if i not in undeparted: return ('dup',i)
            key=lambda j:(st['stamp'][j], arr[j][1])
            if D and key(i) > min(key(j) for j in D+[i]):
                ok=False; why=('notmin',k,i,[ (j,str(st['stamp'][j])) for j in D+[i]]); break
            done.add(i); prev=e
        if ok: okany=True; break
    return None if okany else why
def explore(N, weights):
    n=0; bad=[]
    flows=list(weights); sizes=[1,2]
    menu=[(g,f,s) for g in GAPS for f in flows for s in sizes]
    for w in itertools.product(menu, repeat=N):
        if w[0][0] in ('same','next'): 
            if w[0][0]=='next': continue
        r = check(list(w), weights); n+=1
        if r: bad.append((w,r))
    return n,bad
sys.stdout=Null()
res=[]
for weights in ({0:1,1:1},{0:1,1:2}):
    for N in (2,3,4):
        t=time.perf_counter(); n,b=explore(N,weights); res.append((weights,N,n,len(b),round(time.perf_counter()-t,1), b[:2]))
sys.stdout=sys.stdout_real
for r in res: print(r)
