#!/venv/bin/python
"""Regenerates MANIFEST.json from the table below (kept in one place so it stays valid)."""
import json, os
HERE = os.path.dirname(os.path.abspath(__file__))
PY = "/venv/bin/python"
CHECKS = {
 "C01": ("exhaustive enumeration of lazily generated process programs on the real kernel; reference agenda (minimum of the pending set) on every observed occurrence",
         "Every program of up to D executed instructions (timeouts 0/1/2/0.5, shared event, join, interrupt, spawn, negative delay) with up to 4 processes, run to exhaustion and through single and chained run(until=t) calls, is executed on the real Environment; each observed occurrence must be the minimum (due time, urgent-before-normal, trigger order) of the harness's own pending set and occur at its due instant.",
         "bounds: D<=6/7 (5/6 with numeric stops); delays from the menu; black-box observation via probes and body logs",
         "DESIGN.md 3 C01"),
 "C02": ("exhaustive enumeration of process programs with value-carrying timeouts, succeed/fail, joins, plain callbacks, catching/non-catching waits; registration-order ledger and crash prediction",
         "Every program of up to D instructions over the value/failure alphabet is executed; per event the invocation sequence must equal the registration list exactly once each in one kernel step, every waiter receives the event's own tag or an exception of the same type and args, already-processed events resume in the same step, re-triggers raise RuntimeError, and run() raises exactly the failures no process was waiting for, at that instant.",
         "bounds: D<=6/7 with 2 initial processes (two alphabets), D<=5/6 with 3 and with failures re-raised `from` as another exception; <=4 processes",
         "DESIGN.md 3 C02"),
 "C03": ("exhaustive enumeration of (program, split plan) pairs on the real kernel and of split plans over fixed network scenarios; trace equality with the uninterrupted run; cross-process digest comparison for hash seeds",
         "For every kernel program of up to Dp instructions and 5 network scenarios the uninterrupted run is executed first; then every plan of up to S stops (step(), run(until=t) on and between due instants, a refused t<=now, run(until=event) for each event/process that succeeds) is executed on a fresh kernel with the same program and the concatenated trace, the state at each return (now, processed, nothing later observed) and the returned values are compared. Trace digests of all small programs and scenarios are compared across 13 fresh interpreter processes with different PYTHONHASHSEED values.",
         "bounds: Dp<=4 S<=2 (quick); Dp<=5 S<=2 and Dp<=4 S<=3 (thorough); hash seeds are a fixed finite set, not enumerable",
         "DESIGN.md 3 C03"),
 "C04": ("exhaustive enumeration of process programs with interrupts (peer, self, finished, not-yet-started victims) and victim reactions; per-victim FIFO ledger",
         "Every program of up to D instructions where processes interrupt each other at any instant (incl. the instant the victim's target is due) and an interrupted victim goes on or re-waits is executed; interrupts must arrive once, at the issue instant, in issue order, before any ordinary occurrence, never before the victim's first statement; refusals must raise RuntimeError; unique value tags expose any resumption by an abandoned target.",
         "bounds: D<=6/7 with 2 initial processes, D<=5/6 with 3; <=4 processes",
         "DESIGN.md 3 C04"),
 "C05": ("exhaustive enumeration of condition trees x leaf kinds x timings x construction order on the real kernel; recursive reference over the observed leaf processing order",
         "Every condition tree of the stated shape (AllOf/AnyOf 0-3 operands, &, |, nested) over timeouts, helper-triggered events and child processes that succeed or fail at instants 0/1/2, built at 0 or 1 before/after the helpers, with/without catcher, is executed; the root's waiter must resume exactly at the reference instant with exactly the processed leaves in operand order (or the failing operand's exception), and run() must raise exactly the failures the statement leaves unhandled.",
         "bounds: depth<=2/3, <=3/4 leaves; binary roots also with exception objects as success values; crash expectation three-valued (see evidence assumptions)",
         "DESIGN.md 3 C05"),
 # id: (technique, level text, level note, design ref)
 "C12": ("exhaustive enumeration of arrival workloads against the real schedulers; work-conserving single-server reference + ledger",
         "Every workload of up to N packets (gaps incl. same-step/same-instant/coinciding with transmission ends) over 6 schedulers x tables x rates x flow-to-class maps is executed on the real code; departure instants, per-flow order, counters after every kernel step and Monitor samples are compared with an exact reference. Complete within the stated bounds, nothing sampled.",
         "bounds: N<=3/4 packets full menu, N<=4/5 reduced; packet ids rising and (reduced) falling within a flow; dyadic rates/sizes so float arithmetic is exact; reference model in harness/sched.py is trusted",
         "DESIGN.md 3 C12"),
 "C06": ("exhaustive enumeration of operation histories (puppet processes driven through mailboxes, batches inside one instant) and of customer-script populations on the real Resource classes; reference = set of admissible states with lazy hand-over forks",
         "Every legal history of up to D request/release/double-release/foreign-release/cancel/with-exit/tick/flush operations on 3 puppets, and every population of 3-4 customer scripts written with `with res.request() as r: yield r | timeout` (incl. preemption reactions and an outside interrupt leaving the with-block through the exception), is executed on Resource, PriorityResource and PreemptiveResource with capacity 1-3; capacity is checked after every kernel step, no-idle-slot at every clock advance, and users/queue/grant sequence/preemptions must equal some admissible reference state.",
         "bounds: D<=6/8 (plain), 5/7 (priority, preemptive); one request per process; hand-over timing inside an instant and the post-cancel look at the new queue head are forked",
         "DESIGN.md 3 C06"),
 "C07": ("exhaustive enumeration of put/get/cancel histories (puppets, batches inside one instant) and user-style `yield req | timeout` scripts on the real Container/Store/PriorityStore/FilterStore; reference = set of admissible states with lazy cross-scan forks",
         "Every legal history of up to D put/get/cancel/tick/flush operations on 3 puppets is executed on Container (4-5 parameterisations), Store, PriorityStore and FilterStore with capacity 1, 2 and unbounded; bounds after every kernel step, conservation and no-stranded-request at every settled point, and content/pending queues/grants must equal some admissible reference state; scripts with patience timeouts exercise cancel-on-timeout.",
         "bounds: D<=5/6 (Store 6/7, FilterStore 4/6); one outstanding request per process; amounts 1..3, priorities 1|2 with ties, filters any/==a/==b/never",
         "DESIGN.md 3 C07"),
 "C08": ("exhaustive enumeration of arrival workloads through every element, every ordered pair of elements, demux fan-outs and generator->element->sink pipelines; per-stage packet ledger by object identity",
         "Every workload of up to N packets is pushed through each of 15 single elements, all 169 ordered chains of 13 single-output elements, FlowDemux/FIBDemux/switch/splitter/hub configurations and two-generator pipelines; at exhaustion every packet handed to a stage is forwarded exactly once as the same object with unchanged identifying fields, or discarded by that stage's counted/owned rule; per-flow order, DistPacketGenerator's emission law and PacketSink's bookkeeping are compared with the ledger.",
         "bounds: N<=3/4 per workload, 2 flows (+1 unrouted), sizes {1,2}; wire-loss and generator draws are harness-owned menus",
         "DESIGN.md 3 C08"),
 "C09": ("exhaustive enumeration of arrival workloads x (rate, qlimit, mode) against the real Port/PortMonitor/REDPort; exact FIFO-with-occupancy reference; RED decided as a function of harness-owned draws",
         "Every workload of up to N packets for every rate in {0,8,16} and qlimit in None/bytes/packets is executed on the real Port: each drop decision, departure instant, byte_size after every kernel step, per-hop stamp and PortMonitor sample is compared with the reference. REDPort: the EWMA and the three-region decision are checked for four draws around the curve value at every arrival. Complete within the bounds.",
         "bounds: N<=4/5; sizes {1,2,3}; RED thresholds (1,2),(1,3), qlimit {3,4}, weight {0,1}, max_p {.5,1}; same-instant 'waiting vs in transmission' is forked (see assumptions in evidence)",
         "DESIGN.md 3 C09"),
 "C10": ("exhaustive enumeration of arrival x delay-draw x loss-draw sequences against the real Wire/Cable with harness-owned delay_dist and random.uniform",
         "Every arrival sequence of up to N packets, every delay sequence over {0,1,2,3} and every loss-draw vector is executed on the real Wire (and both directions of a Cable in every interleaving); delivery instants must equal max(entry+delay, previous delivery) under some attribution of draws to packets, lost <=> draw < rate. Complete within the bounds.",
         "bounds: N<=5/6 lossless, 4/5 with loss draws; Cable N<=4/5 and 3/4; delays {0,1,2,3}; loss rates {None,0,0.5,1}",
         "DESIGN.md 3 C10"),
 "C11": ("exhaustive enumeration of arrival workloads x bucket parameters against the real TokenBucket/TwoRateTokenBucket; exact rational reference bucket",
         "Every workload of up to N packets (sizes incl. one larger than every bucket, gaps incl. a refill-to-cap idle) for 19 TokenBucket and 7 TwoRate parameterisations is executed on the real shapers; each release instant must equal the exact reference, conformance and peak spacing are evaluated on all departure pairs, colours are checked against a bracketed committed-bucket level.",
         "bounds: N<=4/5; rates 8/16; buckets {1,2,3}; peak {None,16,32}; CIR 8, CBS {2,3}, PIR {None,16}, PBS {2,4}",
         "DESIGN.md 3 C11"),
 "C13": ("exhaustive enumeration of arrival workloads against the real SP scheduler; strictness checked at every service start with the D/M visibility rule",
         "Every workload of up to N packets over every priority table (2-3 flows, ties, all orderings) is executed on the real SP; at each reconstructed service start the served packet's priority is compared with every packet definitely waiting. Complete within the bounds.",
         "bounds: N<=4/5 (2 flows), N<=3/4 full and 5/6 burst menus (3 flows); positive integer priorities; D/M rule (DESIGN 2.4) decides which same-instant arrivals count as waiting",
         "DESIGN.md 3 C13"),
 "C14": ("exhaustive enumeration of workloads against real WFQ/VC; stamps recomputed in exact rationals from the observed history, nondeterministic reference for same-instant emptying",
         "Every workload of up to N packets over weight/vtick tables, rates and flow-to-class maps, plus equal-stamp bursts over 4-6 classes and static backlogs, is executed on the real WFQ and VC; each service decision must pick the minimal (stamp, arrival) among the definitely-waiting packets under some admissible reading; static backlogs are checked against the normalised-service bound.",
         "bounds: N<=3/4 full, 4/5 reduced, static backlogs to 5/6; tolerance 1e-9 on non-dyadic stamps; reference in harness/c14.py trusted",
         "DESIGN.md 3 C14"),
 "C15": ("exhaustive enumeration of workloads against real DRR/RR/WRR; nondeterministic round-robin reference automata, credits read at settled points",
         "Every workload of up to N packets (sizes below/at/above the quanta) and static backlogs is executed on the real DRR, RR and WRR; the departure order must be explained by some run of the cyclic-visit automaton, DRR credits at settled points must match it and stay in [0, Q+Lmax), and the fairness bound is evaluated over every interval in which two classes stay backlogged.",
         "bounds: DRR N<=3/4 full menu, 4/5 reduced, backlogs 6/8; RR/WRR N<=4/5, bursts to 7/9; pointer position after idle and same-instant visibility are forked, so only orders no admissible run explains are reported",
         "DESIGN.md 3 C15"),
 "C16": ("exhaustive enumeration of segment arrival sequences at the real TCPSink, and of fault sets (drop / late delivery by transmission index, deviation-bounded) over a real TCPPacketGenerator+TCPSink pair on a harness path",
         "Every arrival sequence of up to L segments over {0..3}*MSS is fed to the real TCPSink and each returned ACK compared with the contiguous-prefix length. End to end, for every flow size, path delay pair, initial RTT estimate (incl. RTO < RTT) and Reno/CUBIC, every set of up to F faults among the first K data and ACK transmissions is executed to a 4000 s horizon: the run must not raise, the sink must hold [0,size) and last_ack must reach size; loss-free runs whose RTT stays below every RTO in force must transmit each segment once.",
         "bounds: L<=6/7; flows 1..6/8 MSS; delays (1,1),(1,3),(3,5); estimates .25/.5/4; F<=3/4 faults among the first 12/20 transmissions of each direction; FIFO paths; fixed long executions: 7 arrival orders (<=100 holes), 48 periodic fault patterns, 6 outages of 11/12 consecutive losses",
         "DESIGN.md 3 C16"),
 "C17": ("exhaustive enumeration of ACK/timer histories at the real TCP sender (the harness plays the network); reference = the statement's window and RTO rules",
         "Every history of up to D events (new ACK advancing 1-3 segments with RTT sample .5/1/3, duplicate ACK, clock +0.5, next timer expiry) from 4 Reno start states and 3 CUBIC/fast-recovery start states is executed on the real sender with the kernel run to quiescence after each event; cwnd, ssthresh, rto, last_ack, next_seq (and CUBIC's pacing figures) must equal the reference after every event, every new segment must be MSS-sized, consecutive and inside the window, retransmissions must be exactly those the rules call for.",
         "bounds: D<=5/6 after fixed prefixes; relative tolerance 1e-9; points the statement leaves open are listed in the evidence assumptions",
         "DESIGN.md 3 C17"),
 "C18": ("complete enumeration of small configuration grids against the real demuxes/switches/hub/splitters; exhaustive enumeration of every flow the owned sample() can generate on FatTree(2), FatTree(4), with FIB walk and end-to-end simulation",
         "All FlowDemux/FIBDemux tables, output lists, end maps and flows of the stated grids, all hub populations/construction styles/senders and all splitter connection patterns are executed; FatTree structure is checked for k<=8/12; every (src,dst,shortest path) choice for k=2 and k=4 (848) with and without tcp has its generated FIB walked hop by hop and is simulated with bare FIBDemux+Port nodes and with FairPacketSwitch(WFQ) nodes whose flows share one class; flow pairs sharing a directed link are simulated.",
         "bounds: grids as listed in the evidence rule; k=4 pairs: first flow among the first 16 (quick) / all 240 endpoint choices (thorough); k=6 single flows: first 10 sources (quick) / all 2862 pairs and one source of k=8 (thorough); networkx trusted for graph bookkeeping",
         "DESIGN.md 3 C18"),
 "C19": ("exhaustive enumeration, deviation-bounded, of stop/restart histories issued before/after the timer's own event at every instant and from its own callback, on the real Timer; reference = set of (pending expiry, stopped, period) states",
         "For one-shot and auto-restart timers with timeout 2|3 and args None/[7]/7/'ab', every history with up to B stop()/restart(1|2) actions placed before or after the timer's event at any instant 1..H, or inside any callback invocation, is executed; every firing must be expected by some reference state, every expected firing must have happened when the clock advances, arguments must arrive as given, and nothing may raise.",
         "bounds: H=8/10 instants, B<=3/4 actions; restart of a stopped or already expired one-shot timer is treated leniently (noraise only)",
         "DESIGN.md 3 C19"),
 "C20": ("exhaustive enumeration of (program, wall-clock behaviour) pairs on the real RealtimeEnvironment under a virtual monotonic/sleep pair, deviation-bounded",
         "Every kernel program of up to D instructions for every factor, initial time and strict setting is executed under every wall-clock behaviour with at most B deviations (compute time before a step incl. lag exactly at and 2^-10 above the limit, sleeps returning early/late, sync() calls); the log must equal the plain Environment's, no occurrence may be processed before its wall-clock due time, and the strict-mode RuntimeError must be raised exactly when the lag at step entry exceeds factor.",
         "bounds: D<=3/4, deviation budget 2/3, sync offered before the first 3/6 steps; virtual clock owned through onl.sim.rt and time module names",
         "DESIGN.md 3 C20"),
}
ALL = ["C%02d" % i for i in range(1, 21)]
def main():
    checks = []
    for pid in ALL:
        if pid not in CHECKS:
            continue
        tech, text, note, ref = CHECKS[pid]
        checks.append({
            "property_id": pid,
            "quick_cmd": "%s run.py %s --tier quick" % (PY, pid),
            "thorough_cmd": "%s run.py %s --tier thorough" % (PY, pid),
            "evidence_file": "/verif/evidence/%s.json" % pid,
            "replay_cmd_template": "%s run.py %s --replay {path}" % (PY, pid),
            "engine": "choice-tree-explorer",
            "level_claimed": {"category": "model_checking", "text": text, "design_ref": ref},
            "level_note": note,
            "technique": tech,
        })
    na = [{"property_id": p, "reason": "check not built yet in this session (planned, see DESIGN.md 3); not claimed until its harness exists"}
          for p in ALL if p not in CHECKS]
    m = {
        "version": 1,
        "setup_cmd": "%s -c \"import sys; sys.path.insert(0,'/repo'); import onl, networkx; print('ok')\"" % PY,
        "hooks": {"guard": "ONL_EDU_VERIF", "enable": "no source hooks: all observation is from outside (taps, probes, single-step loop)",
                  "baseline_off_cmd": "cd /repo && /venv/bin/python -m pytest -q -p no:cacheprovider", "source_commits": [], "add_only": True},
        "engines": [{"name": "choice-tree-explorer", "path": "/verif/mc/explore.py", "serves_properties": sorted(CHECKS),
                     "kind_free_text": "hand-written stateless explicit-state explorer for Python: enumerates every choice sequence of a closed harness around the real implementation (DFS by replay, optional deviation budget, 16-way sharding)"}],
        "checks": checks,
        "notes": "All checks: /venv/bin/python run.py <id> --tier quick|thorough; evidence in evidence/<id>.json; known_findings.txt lists fixed:/known: entries.",
        "not_applicable": na,
    }
    json.dump(m, open(os.path.join(HERE, "MANIFEST.json"), "w"), indent=1)
if __name__ == "__main__":
    main()
