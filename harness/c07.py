"""C07 - containers and stores: bounded, conservative, ordered, never strand a request."""
from mc.explore import Result
from mc.kclient import INF

from onl.sim import Environment, Interrupt, Container, Store, PriorityStore, FilterStore, PriorityItem

PROPERTY = "C07"
CLAUSES = ["C07.bounds", "C07.conserve", "C07.order", "C07.nostrand", "C07.noraise"]
RULE = ("every history of <= D operations {put(x), get(..), cancel own pending request, tick, flush} issued to 3 puppet "
        "processes (one outstanding request each; operations between two ticks happen inside one instant; legality from what "
        "the puppet has observed) on Container (capacity 2|3, init 0|1|cap, amounts 1..3), Store (capacity 1|2|inf), "
        "PriorityStore (priorities 1|2 with ties), FilterStore (filters any, ==a, ==b, never), plus every permutation of 6/7 distinct priorities put into an unbounded PriorityStore under every put/get interleaving, plus user-style scripts "
        "`yield store.put(x) | timeout` / `yield container.get(n) | timeout` with cancel on timeout; non-trivial = a request "
        "was pending at some settled point or a request was cancelled; distinct = distinct (history, grant log)")
ASSUMPTIONS = [
    "reference = set of admissible states: a new request is looked at immediately; the re-scan of the opposite queue after a "
    "grant, and of the own queue after a cancellation, may happen at any later point of the same instant (forked) and must "
    "have happened when the clock is about to advance (or everything due now has run)",
    "PriorityStore: items of equal priority may be delivered in any order",
]
NP = 3


class Opaque:
    """a payload that cannot be ordered (like a dict or a Packet): equal priorities must never make the store compare items"""
    __slots__ = ("n",)

    def __init__(self, n):
        self.n = n

    def __eq__(self, o):
        return isinstance(o, Opaque) and o.n == self.n

    def __hash__(self):
        return hash(("Opaque", self.n))

    def __repr__(self):
        return "Opaque(%d)" % self.n


def pkey(t):
    return (t[0], t[1].n if isinstance(t[1], Opaque) else t[1])


def plan(tier, seed):
    quick = tier == "quick"
    d = 5 if quick else 6
    cfgs = []
    for (cap, init, amounts) in ((2, 0, [1, 2]), (2, 2, [1, 2]), (3, 1, [1, 3]), (3, 0, [2, 3]), (3, 3, [1, 2, 3])):
        cfgs.append(dict(kind="container", cap=cap, init=init, amounts=amounts, depth=d))
    if not quick:
        cfgs.append(dict(kind="container", cap=3, init=1, amounts=[1, 2, 3], depth=d - 1))
    # amounts far above 2**53: the level is an exact number, not a float
    cfgs.append(dict(kind="container", cap=2 ** 53 + 1, init=2 ** 53, amounts=[1, 2 ** 53], depth=d - 1))
    cfgs.append(dict(kind="container", cap=2 ** 54, init=0, amounts=[1, 2 ** 53], depth=d - 1))
    # amounts that are not binary fractions (0.3 - 0.1 - 0.1 < 0.1: the third get(0.1) must wait), requests with a
    # non-positive amount (refused with ValueError, without any effect)
    cfgs.append(dict(kind="container", cap=0.3, init=0, amounts=[0.1, 0.3], depth=d))
    cfgs.append(dict(kind="container", cap=1, init=0.3, amounts=[0.1, 0.2], depth=d - 1))
    cfgs.append(dict(kind="container", cap=3, init=1, amounts=[1, 2], depth=d - 1, bad=1))
    # equal priorities with payloads that cannot be compared
    cfgs.append(dict(kind="pstore", cap=2, depth=d - 1, opaque=1))
    cfgs.append(dict(kind="pstore", cap=None, depth=d - 1, opaque=1))
    for cap in (1, 2, None):
        cfgs.append(dict(kind="store", cap=cap, depth=d + 1))
        cfgs.append(dict(kind="pstore", cap=cap, depth=d))
    for cap in (1, 2, None):
        cfgs.append(dict(kind="fstore", cap=cap, depth=d - 1 if quick else d))
    cfgs.append(dict(kind="fstore", cap=2, depth=d - 1, none_item=1))
    for kind in ("container", "store"):
        cfgs.append(dict(kind=kind, script=1, cap=2, n=3))
    # PriorityStore ordering with many distinct priorities: every permutation of k priorities x every put/get interleaving
    cfgs.append(dict(kind="pstore", perm=1, k=6 if quick else 7))
    return {"cfgs": cfgs, "budget": None, "bound": "histories of <=%d operations (Store %d, FilterStore %d) on 3 puppets; scripts with 3 processes" % (d, d + 1, d - 1 if quick else d)}


# ---- reference -------------------------------------------------------------------------------------------
class Ref:
    """state = (content, putq, getq, pend_put_scan, pend_get_scan, grants)
       content: level | tuple of items (insertion order);  queue entries: (rid, x)  (x = amount / item / filter name)
       grants: frozenset of (rid, time, value)"""

    def __init__(self, kind, cap, init):
        self.kind = kind
        self.cap = cap if cap is not None else INF
        c0 = init if kind == "container" else ()
        self.states = {(c0, (), (), False, False, frozenset())}

    def can_put(self, content, x):
        if self.kind == "container":
            return self.cap - content >= x
        return len(content) < self.cap

    def do_put(self, content, x):
        return content + x if self.kind == "container" else content + (x,)

    def get_options(self, content, f):
        """list of (new content, value) the head get may receive; [] if it cannot be served"""
        if self.kind == "container":
            return [(content - f, None)] if content >= f else []
        if not content:
            return []
        if self.kind == "store":
            return [(content[1:], content[0])]
        if self.kind == "pstore":
            m = min(i[0] for i in content)
            out = []
            for k, i in enumerate(content):
                if i[0] == m:
                    out.append((content[:k] + content[k + 1:], i))
            return out
        for k, i in enumerate(content):
            if f == "any" or (f != "never" and i is not None and i[0] == f):
                return [(content[:k] + content[k + 1:], i)]
        return []

    def put_scan(self, st, now):
        content, putq, getq, pp, pg, grants = st
        granted = False
        while putq and self.can_put(content, putq[0][1]):
            content = self.do_put(content, putq[0][1])
            grants = grants | {(putq[0][0], now, None)}
            putq = putq[1:]
            granted = True
        return (content, putq, getq, False, pg or granted, grants)

    def get_scan(self, st, now):
        """returns a set of states (PriorityStore ties fork)"""
        out = set()
        work = [(st[0], st[1], st[2], st[5], False, 0)]
        while work:
            content, putq, getq, grants, granted, idx = work.pop()
            if idx >= len(getq):
                out.add((content, putq, getq, st[3] or granted, False, grants))
                continue
            rid, f = getq[idx]
            opts = self.get_options(content, f)
            if not opts:
                if self.kind == "fstore":
                    work.append((content, putq, getq, grants, granted, idx + 1))     # a later getter may overtake
                else:
                    out.add((content, putq, getq, st[3] or granted, False, grants))
                continue
            for (c2, val) in opts:
                work.append((c2, putq, getq[:idx] + getq[idx + 1:], grants | {(rid, now, val)}, True, idx))
        return out

    def closure(self, st, now):
        seen = {st}
        work = [st]
        while work:
            s = work.pop()
            nxt = set()
            if s[3]:
                nxt.add(self.put_scan(s, now))
            if s[4]:
                nxt |= self.get_scan(s, now)
            for n in nxt:
                if n not in seen:
                    seen.add(n)
                    work.append(n)
        return seen

    def op_put(self, rid, x, now):
        ns = set()
        for st in self.states:
            for s in self.closure(st, now):
                content, putq, getq, pp, pg, grants = s
                ns.add(self.put_scan((content, putq + ((rid, x),), getq, pp, pg, grants), now))
        self.states = ns

    def op_get(self, rid, f, now):
        ns = set()
        for st in self.states:
            for s in self.closure(st, now):
                content, putq, getq, pp, pg, grants = s
                ns |= self.get_scan((content, putq, getq + ((rid, f),), pp, pg, grants), now)
        self.states = ns

    def op_cancel(self, rid, now):
        ns = set()
        for st in self.states:
            for s in self.closure(st, now):
                content, putq, getq, pp, pg, grants = s
                inp = any(q[0] == rid for q in putq)
                ing = any(q[0] == rid for q in getq)
                ns.add((content, tuple(q for q in putq if q[0] != rid), tuple(q for q in getq if q[0] != rid), pp or inp, pg or ing, grants))
        self.states = ns

    def settle(self, now):
        ns = set()
        for st in self.states:
            for s in self.closure((st[0], st[1], st[2], True, True, st[5]), now):
                if not s[3] and not s[4]:
                    ns.add(s)
        self.states = ns


def execute(ch, cfg):
    res = Result()
    if cfg.get("perm"):
        res.digest = exec_perm(ch, cfg, res)
        return res
    if cfg.get("script"):
        res.digest = exec_script(ch, cfg, res)
    else:
        res.digest = exec_puppets(ch, cfg, res)
    return res


def mk(env, cfg):
    kind = cfg["kind"]
    cap = cfg["cap"] if cfg["cap"] is not None else float("inf")
    if kind == "container":
        return Container(env, cap, cfg.get("init", 0))
    return {"store": Store, "pstore": PriorityStore, "fstore": FilterStore}[kind](env, cap)


def content_of(r, kind):
    if kind == "container":
        return r.level
    if kind == "pstore":
        return tuple(sorted(((i.priority, i.item) for i in r.items), key=pkey))
    if kind == "fstore":
        return tuple(r.items)
    return tuple(r.items)


def exec_puppets(ch, cfg, res):
    kind = cfg["kind"]
    env = Environment()
    r = mk(env, cfg)
    cap = cfg["cap"] if cfg["cap"] is not None else INF
    ref = Ref(kind, cfg["cap"], cfg.get("init", 0))
    tag = "%s(cap=%s)" % (r.__class__.__name__, cfg["cap"])
    mailbox = [env.event() for _ in range(NP)]
    myreq = [None] * NP          # (rid, request, is_put)
    seen = [True] * NP           # no outstanding unseen request
    grants = []                  # (rid, time, value)
    reqs = {}
    nrid = [0]
    nitem = [0]
    hist = []
    FILTERS = {"any": lambda i: True, "a": lambda i: i is not None and i[0] == "a", "b": lambda i: i is not None and i[0] == "b", "never": lambda i: False}

    def puppet(pid):
        while True:
            cmd = yield mailbox[pid]
            mailbox[pid] = env.event()
            op = cmd[0]
            if op in ("put", "get"):
                rid = cmd[3]
                if op == "put":
                    x = cmd[2]
                    q = r.put(PriorityItem(x[0], x[1]) if kind == "pstore" else x)
                else:
                    f = cmd[2]
                    q = r.get(f) if kind == "container" else (r.get(FILTERS[f]) if kind == "fstore" else r.get())
                myreq[pid] = (rid, q, op == "put")
                seen[pid] = False
                reqs[rid] = q

                def cb(e, pid=pid, rid=rid, q=q):
                    v = e.value
                    if isinstance(v, PriorityItem):
                        v = (v.priority, v.item)
                    grants.append((rid, env.now, v))
                    if myreq[pid] is not None and myreq[pid][0] == rid:
                        seen[pid] = True
                q.callbacks.append(cb)
            elif op == "bad":
                try:
                    (r.put if cmd[2] == "put" else r.get)(cmd[3])
                    res.bad("C07.noraise", tag + ":non-positive-amount-accepted", "%s(%r)" % (cmd[2], cmd[3]))
                except ValueError:
                    pass
            elif op == "cancel":
                rid, q, isput = myreq[pid]
                q.cancel()
                if not q.triggered:
                    seen[pid] = True      # gone for good
                    myreq[pid] = None
    procs = [env.process(puppet(p)) for p in range(NP)]
    env.run(until=0.5)
    batch = []

    def steps():
        while env.peek() <= env.now:
            env.step()
            res.ev("C07.bounds")
            if kind == "container":
                if not (0 <= r.level <= cap):
                    res.bad("C07.bounds", tag + ":level-outside-[0,capacity]", "level %r after %r" % (r.level, hist))
                    return False
            elif len(r.items) > cap:
                res.bad("C07.bounds", tag + ":more-items-than-capacity", "%d items after %r" % (len(r.items), hist))
                return False
        return True

    def flush():
        for op in batch:
            mailbox[op[1]].succeed(op)
        del batch[:]
        return steps()

    def compare(where):
        res.ev("C07.order")
        content = content_of(r, kind)
        pq = [k for q in r.put_queue for k, v in reqs.items() if v is q]
        gq = [k for q in r.get_queue for k, v in reqs.items() if v is q]
        g = frozenset(grants)
        if len(g) != len(grants):
            res.bad("C07.order", tag + ":request-granted-twice", "%r" % (grants,))
            return False
        ok = [st for st in ref.states if (st[0] if kind != "pstore" else tuple(sorted(st[0], key=pkey))) == content and [q[0] for q in st[1]] == pq and [q[0] for q in st[2]] == gq and st[5] == g]
        if not ok:
            part = "content"
            cands = [st for st in ref.states if (st[0] if kind != "pstore" else tuple(sorted(st[0], key=pkey))) == content]
            if cands:
                part = "pending-requests"
                if any([q[0] for q in st[1]] == pq and [q[0] for q in st[2]] == gq for st in cands):
                    part = "grants"
            res.bad("C07.order", "%s:%s-differ-from-every-admissible-state" % (tag, part),
                    "%s at t=%r after %r: content %r putq %s getq %s grants %s; admissible e.g. %r" % (where, env.now, hist, content, pq, gq, sorted(grants, key=str), sorted(ref.states, key=str)[:1]))
            return False
        # conservation, independent of the reference
        res.ev("C07.conserve")
        if kind == "container":
            puts = sum(amount[rid] for (rid, t, v) in grants if rid in amount and isput[rid])
            gets = sum(amount[rid] for (rid, t, v) in grants if rid in amount and not isput[rid])
            want = cfg.get("init", 0) + puts - gets
            # (sums of decimal amounts taken in another order differ in the last place: exact for integers only)
            if (r.level != want) if isinstance(want, int) else (abs(r.level - want) > 1e-9):
                res.bad("C07.conserve", tag + ":level-differs-from-init+puts-gets", "level %r init %r granted puts %r gets %r" % (r.level, cfg.get("init", 0), puts, gets))
                return False
        else:
            accepted = [item_of[rid] for (rid, t, v) in grants if isput.get(rid)]
            delivered = [v for (rid, t, v) in grants if not isput.get(rid)]
            held = [((i.priority, i.item) if isinstance(i, PriorityItem) else i) for i in r.items]
            if len(set(delivered)) != len(delivered) or any(d not in accepted for d in delivered):
                res.bad("C07.conserve", tag + ":item-delivered-twice-or-never-accepted", "accepted %r delivered %r" % (accepted, delivered))
                return False
            if sorted(held + delivered, key=str) != sorted(accepted, key=str):
                res.bad("C07.conserve", tag + ":items-held-differ-from-accepted-minus-delivered", "accepted %r delivered %r held %r" % (accepted, delivered, held))
                return False
        return True

    def nostrand():
        res.ev("C07.nostrand")
        if r.put_queue:
            q = r.put_queue[0]
            fits = (cap - r.level >= q.amount) if kind == "container" else (len(r.items) < cap)
            if fits:
                res.bad("C07.nostrand", tag + ":oldest-pending-put-could-be-served", "t=%r after %r" % (env.now, hist))
                return False
        if r.get_queue:
            if kind == "fstore":
                strand = any(any(q.filter(i) for i in r.items) for q in r.get_queue)
            elif kind == "container":
                strand = r.level >= r.get_queue[0].amount
            else:
                strand = len(r.items) > 0
            if strand:
                res.bad("C07.nostrand", tag + ":pending-get-could-be-served", "t=%r after %r" % (env.now, hist))
                return False
        return True
    amount, isput, item_of = {}, {}, {}
    menu = [("tick",), ("flush",)]
    for p in range(NP):
        if kind == "container":
            for a in cfg["amounts"]:
                menu.append(("put", p, a))
            for a in cfg["amounts"]:
                menu.append(("get", p, a))
            if cfg.get("bad"):
                menu += [("bad", p, "put", 0), ("bad", p, "get", -1), ("bad", p, "get", 0)]
        elif kind == "store":
            menu += [("put", p, "item"), ("get", p, None)]
        elif kind == "pstore":
            menu += [("put", p, 1), ("put", p, 2), ("get", p, None)]
        else:
            menu += [("put", p, "a"), ("put", p, "b"), ("get", p, "any"), ("get", p, "a"), ("get", p, "b"), ("get", p, "never")]
            if cfg.get("none_item"):
                menu.append(("put", p, None))       # None is an item like any other
        menu.append(("cancel", p))
    n = 0
    res.ev("C07.noraise")
    try:
        while n < cfg["depth"]:
            busy = set(b[1] for b in batch)
            pending_any = any(not s for s in seen)
            opts = []
            for op in menu:
                if op[0] == "tick":
                    if pending_any or batch or not hist or hist[-1][0] != "tick":
                        opts.append(op)
                elif op[0] == "flush":
                    if batch:
                        opts.append(op)
                elif op[1] in busy:
                    continue
                elif op[0] == "cancel":
                    if myreq[op[1]] is not None and not seen[op[1]]:
                        opts.append(op)
                elif seen[op[1]]:
                    if op[0] == "put" and op[2] is None and None in item_of.values():
                        continue          # at most one None item per history (items are otherwise unique)
                    opts.append(op)
            c = ch.choose(len(opts) + 1, lambda c: "op %s" % ("end" if c == 0 else (opts[c - 1],)), free=True)
            if c == 0:
                break
            op = opts[c - 1]
            n += 1
            hist.append(op)
            now = env.now
            if op[0] in ("tick", "flush"):
                if not flush():
                    return (tuple(hist), tuple(grants))
                ref.settle(now)
                if r.put_queue or r.get_queue:
                    res.nontrivial = True
                if not nostrand() or not compare(op[0]):
                    return (tuple(hist), tuple(grants))
                if op[0] == "tick":
                    env.run(until=env.now + 1)
                continue
            p = op[1]
            if op[0] == "bad":
                batch.append(op)        # refused request: the reference does not move
                continue
            if op[0] == "cancel":
                res.nontrivial = True
                batch.append(op)
                ref.op_cancel(myreq[p][0], now)
                continue
            nrid[0] += 1
            rid = nrid[0]
            x = op[2]
            if op[0] == "put":
                isput[rid] = True
                if kind == "container":
                    amount[rid] = x
                elif x is None:
                    item_of[rid] = None
                else:
                    nitem[0] += 1
                    x = (x, Opaque(nitem[0]) if cfg.get("opaque") else nitem[0])        # unique tag
                    item_of[rid] = x
                ref.op_put(rid, x, now)
            else:
                isput[rid] = False
                if kind == "container":
                    amount[rid] = x
                ref.op_get(rid, x, now)
            batch.append((op[0], p, x, rid))
        if not flush():
            return (tuple(hist), tuple(grants))
        ref.settle(env.now)
        if nostrand():
            compare("end")
    except BaseException as e:  # noqa
        from mc.net import _where
        res.bad("C07.noraise", "%s:%s@%s" % (tag, type(e).__name__, _where(e)), "after %r: %r" % (hist, e))
    return (tuple(hist), tuple(grants))


def exec_script(ch, cfg, res):
    """user-style processes: r = yield req | env.timeout(patience); cancel when the timeout won"""
    kind = cfg["kind"]
    env = Environment()
    r = mk(env, dict(cfg, init=1))
    cap = cfg["cap"]
    tag = "%s(cap=%s,scripts)" % (r.__class__.__name__, cap)
    n = cfg["n"]
    specs = []
    for i in range(n):
        isput = ch.choose(2, lambda c, i=i: "process %d %s" % (i, "puts" if c else "gets"), free=True)
        amt = 1 + ch.choose(2, lambda c, i=i: "process %d amount/priority %d" % (i, c + 1), free=True) if kind == "container" else 1
        at = ch.choose(3, lambda c, i=i: "process %d starts at %d" % (i, c), free=True)
        pat = [0, 1, None][ch.choose(3, lambda c, i=i: "process %d patience %s" % (i, [0, 1, None][c]), free=True)]
        style = ch.choose(2, lambda c, i=i: "process %d gives up with %s" % (i, ["req.cancel()", "a with-block around the request"][c]), free=True) if pat is not None else 0
        specs.append((isput, amt, at, pat, style))
    log = []       # (i, 'granted'|'gave-up', time)

    def proc(i, spec):
        isput, amt, at, pat, style = spec
        if at:
            yield env.timeout(at)
        if kind == "container":
            req = r.put(amt) if isput else r.get(amt)
        else:
            req = r.put(("item", i)) if isput else r.get()
        if style == 1:
            # the idiom from the documentation: leaving the with-block withdraws a request that was not granted
            with req:
                yield req | env.timeout(pat)
            log.append((i, "granted" if req.triggered else "gave-up", env.now))
            return
        if pat is None:
            yield req
            log.append((i, "granted", env.now))
        else:
            yield req | env.timeout(pat)
            if req.triggered:         # may have been granted in the very instant the patience ran out
                log.append((i, "granted", env.now))
            else:
                req.cancel()
                log.append((i, "gave-up", env.now))
    for i in range(n):
        env.process(proc(i, specs[i]))
    res.ev("C07.noraise")
    try:
        steps = 0
        while env.peek() < INF and steps < 5000:
            if env.peek() > env.now:
                res.ev("C07.nostrand")
                bad = strand_of(r, kind, cap)
                if bad:
                    res.bad("C07.nostrand", "%s:%s" % (tag, bad), "t=%r processes %r log %r" % (env.now, specs, log))
                    return (tuple(specs),)
                if r.put_queue or r.get_queue:
                    res.nontrivial = True
            env.step()
            steps += 1
            res.ev("C07.bounds")
            if kind == "container" and not (0 <= r.level <= cap):
                res.bad("C07.bounds", tag + ":level-outside-[0,capacity]", "level %r" % r.level)
                return (tuple(specs),)
            if kind != "container" and len(r.items) > cap:
                res.bad("C07.bounds", tag + ":more-items-than-capacity", "")
                return (tuple(specs),)
        bad = strand_of(r, kind, cap)
        res.ev("C07.nostrand")
        if bad:
            res.bad("C07.nostrand", "%s:%s" % (tag, bad), "end, processes %r log %r" % (specs, log))
            return (tuple(specs),)
        res.ev("C07.conserve")
        if kind == "container":
            puts = sum(specs[i][1] for (i, w, t) in log if w == "granted" and specs[i][0])
            gets = sum(specs[i][1] for (i, w, t) in log if w == "granted" and not specs[i][0])
            if r.level != 1 + puts - gets:
                res.bad("C07.conserve", tag + ":level-differs-from-init+puts-gets", "level %r puts %r gets %r; processes %r log %r" % (r.level, puts, gets, specs, log))
        else:
            puts = sum(1 for (i, w, t) in log if w == "granted" and specs[i][0])
            gets = sum(1 for (i, w, t) in log if w == "granted" and not specs[i][0])
            if len(r.items) != puts - gets:
                res.bad("C07.conserve", tag + ":items-held-differ-from-accepted-minus-delivered", "held %d puts %d gets %d; processes %r log %r" % (len(r.items), puts, gets, specs, log))
    except BaseException as e:  # noqa
        from mc.net import _where
        res.bad("C07.noraise", "%s:%s@%s" % (tag, type(e).__name__, _where(e)), "processes %r: %r" % (specs, e))
    return (tuple(specs), tuple(log))


def strand_of(r, kind, cap):
    if r.put_queue:
        q = r.put_queue[0]
        if (cap - r.level >= q.amount) if kind == "container" else (len(r.items) < cap):
            return "oldest-pending-put-could-be-served"
    if r.get_queue:
        if kind == "container":
            if r.level >= r.get_queue[0].amount:
                return "pending-get-could-be-served"
        elif len(r.items) > 0:
            return "pending-get-could-be-served"
    return None


def exec_perm(ch, cfg, res):
    """k distinct priorities are put in a chosen order into an unbounded PriorityStore, gets interleaved at chosen points:
    every get must return the smallest priority present"""
    k = cfg["k"]
    env = Environment()
    st = PriorityStore(env)
    left = list(range(1, k + 1))
    held = []
    got = []
    seq = []
    puts = gets = 0
    tag = "PriorityStore(cap=None,many-priorities)"
    res.ev("C07.order")
    try:
        while puts < k or gets < k:
            opts = []
            if puts < k:
                opts += [("put", p) for p in left]
            if gets < puts:
                opts.append(("get",))
            c = ch.choose(len(opts), lambda c: "%s" % (opts[c],), free=True)
            op = opts[c]
            seq.append(op)
            if op[0] == "put":
                left.remove(op[1])
                held.append(op[1])
                puts += 1
                st.put(PriorityItem(op[1], "item%d" % op[1]))
            else:
                gets += 1
                g = st.get()
                while env.peek() <= env.now:
                    env.step()
                if not g.triggered:
                    res.bad("C07.nostrand", tag + ":pending-get-could-be-served", "after %r" % seq)
                    return tuple(seq)
                v = g.value.priority
                want = min(held)
                if len(held) >= 4:
                    res.nontrivial = True
                if v != want:
                    res.bad("C07.order", tag + ":get-did-not-return-the-smallest-item", "after %r: got %r, smallest present %r (held %r)" % (seq, v, want, sorted(held)))
                    return tuple(seq)
                held.remove(v)
                got.append(v)
            while env.peek() <= env.now:
                env.step()
    except BaseException as e:  # noqa
        res.bad("C07.noraise", "%s:%s" % (tag, type(e).__name__), "after %r: %r" % (seq, e))
    return tuple(seq)
