#!/venv/bin/python
"""Evaluate property-breaking changes written by independent sub-agents.

usage: tools_seeded.py <Cxx> <dir with m<i>.diff / demo_m<i>.py / README.md> [--tier quick] [--also Cyy,...]

For every m<i>.diff: make a scratch copy of /repo (outside /repo and /verif), confirm the demonstration passes on the
clean copy, apply the diff, run the pinned test-suite (must still pass), confirm the demonstration fails, run the
property's check against the scratch copy (ONL_REPO), record the outcome in /verif/seeded/<Cxx>-m<i>/ and remove
the scratch copy.  Nothing is ever applied to /repo itself by this tool."""
import json
import os
import shutil
import subprocess
import sys
import tempfile
import time

VERIF = os.path.dirname(os.path.abspath(__file__))
PY = "/venv/bin/python"


def sh(cmd, cwd=None, env=None, timeout=1800):
    e = dict(os.environ)
    e.update(env or {})
    try:
        p = subprocess.run(cmd, shell=True, cwd=cwd, env=e, capture_output=True, text=True, timeout=timeout)
        return p.returncode, (p.stdout + p.stderr)
    except subprocess.TimeoutExpired as ex:
        return 124, "TIMEOUT " + str(ex)[:200]


def main():
    pid, src = sys.argv[1], sys.argv[2]
    tier = "quick"
    also = []
    tag = ""
    for i, a in enumerate(sys.argv):
        if a == "--tag":
            tag = sys.argv[i + 1]
        if a == "--tier":
            tier = sys.argv[i + 1]
        if a == "--also":
            also = sys.argv[i + 1].split(",")
    diffs = sorted(f for f in os.listdir(src) if f.startswith("m") and f.endswith(".diff"))
    readme = open(os.path.join(src, "README.md")).read() if os.path.exists(os.path.join(src, "README.md")) else ""
    for d in diffs:
        name = d[:-5]
        demo = os.path.join(src, "demo_%s.py" % name)
        scratch = tempfile.mkdtemp(prefix="seed_%s_%s_" % (pid, name), dir="/tmp")
        try:
            sh("rsync -a --exclude .git --exclude _mut /repo/ %s/" % scratch)
            rc_clean, out_clean = sh("%s %s" % (PY, demo), cwd=scratch, env={"PYTHONPATH": scratch}, timeout=300)
            rc_apply, out_apply = sh("git apply --unsafe-paths --directory=%s %s" % (scratch, os.path.join(src, d)), cwd="/")
            if rc_apply != 0:
                rc_apply, out_apply = sh("patch -p1 < %s" % os.path.join(src, d), cwd=scratch)
            rc_tests, out_tests = sh("%s -m pytest -q -p no:cacheprovider -x" % PY, cwd=scratch, env={"PYTHONPATH": scratch}, timeout=900)
            for _ in range(3):
                if rc_tests == 0:
                    break
                # the pinned suite has wall-clock tests (tests/test_rt.py) that fail on a loaded machine: try again
                time.sleep(20)
                rc_tests, out_tests = sh("%s -m pytest -q -p no:cacheprovider -x" % PY, cwd=scratch, env={"PYTHONPATH": scratch}, timeout=900)
            rc_demo, out_demo = sh("%s %s" % (PY, demo), cwd=scratch, env={"PYTHONPATH": scratch}, timeout=300)
            checks = {}
            for c in [pid] + also:
                t0 = time.time()
                rc, out = sh("%s run.py %s --tier %s --no-evidence" % (PY, c, tier), cwd=VERIF, env={"ONL_REPO": scratch}, timeout=3000)
                viol = [l for l in out.splitlines() if l.startswith("VIOLATION")]
                checks[c] = {"exit": rc, "caught": rc == 1 and bool(viol), "violations": [v[:300] for v in viol[:4]], "wall_s": round(time.time() - t0, 1),
                             "tail": out.splitlines()[-1][:200] if out.splitlines() else ""}
            valid = rc_clean == 0 and rc_apply == 0 and rc_tests == 0 and rc_demo != 0
            dst = os.path.join(VERIF, "seeded", "%s-%s%s" % (pid, tag, name))
            os.makedirs(dst, exist_ok=True)
            shutil.copy(os.path.join(src, d), os.path.join(dst, "patch.diff"))
            if os.path.exists(demo):
                shutil.copy(demo, os.path.join(dst, "demo.py"))
            prev = {}
            if os.path.exists(os.path.join(dst, "meta.json")):
                prev = json.load(open(os.path.join(dst, "meta.json")))
            meta = {
                "property": pid, "mutant": tag + name, "origin": "independent sub-agent given only the property text and a scratch worktree",
                "valid": valid,
                "confirmed": {"demo_passes_on_clean_tree": rc_clean == 0, "patch_applies": rc_apply == 0,
                              "pinned_suite_passes_with_patch": rc_tests == 0, "demo_fails_with_patch": rc_demo != 0,
                              "suite_tail": out_tests.strip().splitlines()[-1][:120] if out_tests.strip() else ""},
                "needs_to_manifest": extract(readme, name),
                "ran": ["demo on clean scratch copy", "git apply", "pytest (pinned suite)", "demo with patch",
                        "run.py %s --tier %s with ONL_REPO=<scratch copy>" % ("/".join([pid] + also), tier)],
                "checks": checks,
                "caught_by": [c for c in checks if checks[c]["caught"]],
            }
            # keep the history of evaluations: a change first missed and caught after the checks were strengthened stays visible
            hist = prev.get("history", [])
            if prev:
                hist.append({"verif_commit": prev.get("verif_commit"), "caught_by": prev.get("caught_by")})
            meta["history"] = hist
            rc, out = sh("git -C %s rev-parse --short HEAD" % VERIF)
            meta["verif_commit"] = out.strip()
            json.dump(meta, open(os.path.join(dst, "meta.json"), "w"), indent=1)
            print("%s-%s%s valid=%s caught_by=%s %s" % (pid, tag, name, valid, meta["caught_by"], "" if valid else "(clean %s apply %s tests %s demo %s)" % (rc_clean, rc_apply, rc_tests, rc_demo)))
            for c in checks:
                for v in checks[c]["violations"][:1]:
                    print("    ", v[:220])
        finally:
            shutil.rmtree(scratch, ignore_errors=True)


def extract(readme, name):
    """the README paragraph that mentions this mutant"""
    paras = [p.strip() for p in readme.split("\n\n") if p.strip()]
    idx = name[1:]
    for p in paras:
        low = p.lower()
        if ("m%s" % idx) in low or ("mutant %s" % idx) in low:
            return p[:1500]
    return readme[:1500]


if __name__ == "__main__":
    main()
