import sys, time, itertools
sys.path.insert(0, sys.argv[1])
from fractions import Fraction as Fr
from onl.sim import Environment
from onl.packet import Packet
from onl.scheduler import DRR
class Null:
    def write(s,x): pass
    def flush(s): pass
real=sys.stdout
GAPS = ['same','next',1,2,9]
RATE=8000
def run(workload, weights):
    env = Environment(); s = DRR(env, RATE, weights)
    log=[]; seq=[0]; step=[0]
    class Sink:
        def put(self, p): seq[0]+=1; log.append(('D',seq[0],env.now,p.packet_id,dict(s.deficit)))
    s.out = Sink()
    def drv(env):
        for i,(gap,flow,size) in enumerate(workload):
            if gap=='next': yield env.timeout(0); step[0]+=1
            elif gap!='same': yield env.timeout(gap); step[0]+=1
            seq[0]+=1; log.append(('A',seq[0],env.now,i,step[0]))
            s.put(Packet(env.now, size, i, flow_id=flow))
    env.process(drv(env)); err=None
    try: env.run(until=500)
    except BaseException as e: err=e
    return log, err, s
def check(workload, weights):
    log, err, s = run(workload, weights)
    if err: return ('raised',repr(err))
    order=list(weights); minw=min(weights.values()); Q={c:1500*weights[c]/minw for c in order}
    arr={e[3]:e for e in log if e[0]=='A'}; deps=[e for e in log if e[0]=='D']
    if len(deps)!=len(workload): return ('lost',len(deps))
    cls=lambda i: workload[i][1]; size=lambda i: workload[i][2]
    # reference states: (idx or None, midvisit(bool), deficits tuple)
    states={(None, False, tuple(0.0 for _ in order))}
    done=set(); prev=None
    for k,e in enumerate(deps):
        i=e[3]
        und=[j for j in sorted(arr, key=lambda j:arr[j][1]) if j not in done]
        busy = prev is not None and any(arr[j][2] <= prev[2] for j in und)
        if busy:
            D=[j for j in und if arr[j][1] < prev[1]]
            M=[j for j in und if arr[j][1] > prev[1] and arr[j][2]==prev[2]]
            cand=states
        else:
            first=und[0]
            Dl=[j for j in und if arr[j][4]==arr[first][4] and arr[j][2]==arr[first][2]]
            D=[j for j in und if arr[j][1] <= max(arr[x][1] for x in Dl)]
            M=[j for j in und if j not in D and arr[j][2]==arr[first][2]]
            # after idle: pointer anywhere, deficits all zero (all queues were empty)
            cand={(p, False, tuple(0.0 for _ in order)) for p in [None]+list(range(len(order)))}
        newstates=set()
        Ms=sorted(M, key=lambda j:arr[j][1])
        n=len(order)
        def qof(c, v):
            vis=D+Ms[:v]; vis.sort(key=lambda j:arr[j][1])
            return [j for j in vis if cls(j)==c]
        def search(p, m, defs, v, guard):
            if guard>40: return
            if p is None: p=0; m=False
            c=order[p]
            for v2 in range(v, len(Ms)+1):      # monotone visibility: fork at every look
                q=qof(c, v2); d=list(defs)
                if not m:
                    if not q:
                        search((p+1)%n, False, tuple(d), v2, guard+1); continue
                    d[p]+=Q[c]
                if q and size(q[0]) <= d[p]:
                    j=q[0]
                    if j==i:
                        nd=list(d); nd[p]-=size(j)
                        newstates.add((p, True, tuple(nd), tuple(d)))
                else:
                    if not q: d[p]=0.0
                    search((p+1)%n, False, tuple(d), v2, guard+1)
        for (idx,mid,defs) in cand:
            search(idx, mid, tuple(defs), 0, 0)
        if not newstates: return ('unexplained', k, i, [workload[j] for j in und])
        # compare deficits observed after this departure; resolve 'forget credit when queue empties'
        obs=e[4]; res=set()
        for (p,m,post,pre) in newstates:
            # observed at the tap = credits before this packet's debit
            if all(abs(pre[x]-obs[order[x]])<1e-9 for x in range(len(order))):
                res.add((p,True,post))
        if not res: return ('deficit', k, i, obs, sorted(newstates)[:3])
        for (p,m,d) in res:
            if not (0<= min(d) and all(d[x] < Q[order[x]]+3000 for x in range(len(order)))): return ('credit range', d)
        states=res; done.add(i); prev=e
    if any(v!=0 for v in s.deficit.values()) : return ('final credit', dict(s.deficit))
    return None
def explore(N, weights, sizes):
    flows=list(weights); menu=[(g,f,s) for g in GAPS for f in flows for s in sizes]
    n=0; bad=[]
    for w in itertools.product(menu, repeat=N):
        if w[0][0]=='next': continue
        r=check(list(w),weights); n+=1
        if r: bad.append((w,r))
    return n,bad
sys.stdout=Null(); out=[]
for weights,sizes in (({0:1,1:1},[1000,2000]),({0:1,1:2},[1000,3000])):
    for N in (2,3):
        t=time.perf_counter(); n,b=explore(N,weights,sizes); out.append((weights,N,n,len(b),round(time.perf_counter()-t,1),b[:2]))
sys.stdout=real
for o in out: print(str(o)[:900])
