#!/venv/bin/python
"""Entry point: run.py <Cxx> [--tier quick|thorough] [--replay FILE]"""
import os
import sys

if os.environ.get("PYTHONHASHSEED") is None:
    # make every run a pure function of the tree and the tier
    os.environ["PYTHONHASHSEED"] = "0"
    os.execv(sys.executable, [sys.executable] + sys.argv)
sys.path.insert(0, os.path.dirname(os.path.abspath(__file__)))
sys.dont_write_bytecode = True
from mc import runner  # noqa: E402

if __name__ == "__main__":
    sys.exit(runner.main())
