# throwaway: C03 split-plan transparency on the real kernel
import time, sys, itertools
import sys; sys.path.insert(0, sys.argv[1])
from onl.sim import Environment, Interrupt
from onl.sim.core import EmptySchedule
class Chooser:
    def __init__(s, prefix, depth): s.prefix=prefix; s.trace=[]; s.depth=depth
    def choose(s, n):
        i=len(s.trace)
        if i>=s.depth: return None
        c = s.prefix[i] if i < len(s.prefix) else 0
        s.trace.append((n,c)); return c
ALPHA = ['ret','T0','T1','T2','We','Se','Jo','Io','Sp']
def build(prefix, depth):
    ch=Chooser(prefix,depth); env=Environment(); log=[]
    ev=env.event(); procs=[]; due=set()
    ev.callbacks.append(lambda e: log.append((env.now,'ev')))
    def body(pid):
        log.append((env.now,'start',pid))
        while True:
            c=ch.choose(len(ALPHA))
            if c is None or c==0: log.append((env.now,'ret',pid)); return pid
            a=ALPHA[c]
            try:
                if a[0]=='T':
                    d=int(a[1]); due.add(env.now+d); v=yield env.timeout(d,value=(pid,'t')); log.append((env.now,'to',pid))
                elif a=='We': v=yield ev; log.append((env.now,'gotev',pid,v))
                elif a=='Se':
                    try: ev.succeed(pid)
                    except RuntimeError: pass
                elif a=='Jo':
                    o=procs[(pid+1)%len(procs)]
                    if o is not procs[pid]:
                        v=yield o; log.append((env.now,'joined',pid,v))
                elif a=='Io':
                    try: procs[(pid+1)%len(procs)].interrupt(pid)
                    except RuntimeError: pass
                elif a=='Sp':
                    if len(procs)<4:
                        procs.append(None); k=len(procs)-1; procs[k]=env.process(body(k)); procs[k].callbacks.append(lambda e,k=k: log.append((env.now,'term',k)))
            except Interrupt as i: log.append((env.now,'intr',pid,i.cause))
    for pid in range(2):
        procs.append(None); procs[pid]=env.process(body(pid)); procs[pid].callbacks.append(lambda e,pid=pid: log.append((env.now,'term',pid)))
    return ch,env,log,ev,procs,due
H=30
def finish(env):
    try: env.run(until=H)
    except Interrupt: return 'crash'
def baseline(prefix,depth):
    ch,env,log,ev,procs,due=build(prefix,depth)
    c=finish(env)
    return ch.trace,log,due,c,ev,procs
def with_plan(prefix,depth,plan,base_log):
    ch,env,log,ev,procs,due=build(prefix,depth); notes=[]
    try:
        for st in plan:
            if st[0]=='step':
                try: env.step()
                except EmptySchedule: pass
            elif st[0]=='t':
                t=st[1]
                if t<=env.now:
                    try: env.run(until=t); notes.append(('no ValueError',t))
                    except ValueError: pass
                else:
                    env.run(until=t)
                    if env.now!=t: notes.append(('now',env.now,t))
                    # everything due < t observed, nothing due at t observed: compare with base log prefix
                    exp=[x for x in base_log if x[0]<t]
                    if log!=exp: notes.append(('until_num',t,log[len(exp)-2:len(exp)+2],exp[-2:]))
            elif st[0]=='ev':
                target = ev if st[1]=='ev' else procs[st[1]] if st[1]<len(procs) else None
                if target is None: continue
                if not target.triggered and env.peek()==float('inf'): continue
                try: v=env.run(until=target)
                except RuntimeError: continue   # never triggered
                if not target.processed: notes.append(('until_ev not processed',))
        env.run(until=H) if env.now<H else None
    except Interrupt: pass
    return log,notes
def explore(depth, S):
    n=0; bads={}; stack=[[]]; progs=0
    while stack:
        p=stack.pop(); tr,blog,due,c,ev,procs=baseline(p,depth); progs+=1
        for i in range(len(p),len(tr)):
            for alt in range(1,tr[i][0]): stack.append([x for _,x in tr[:i]]+[alt])
        if c=='crash': continue
        T=sorted(due); menu=[('step',)]+[('t',t) for t in T]+[('t',t+0.25) for t in T]
        okev = ev.processed
        menu+= ([('ev','ev')] if okev else []) + [('ev',k) for k in range(len(procs)) if procs[k].processed and procs[k].ok]
        for r in range(1,S+1):
            for plan in itertools.product(menu,repeat=r):
                log,notes=with_plan(p,depth,plan,blog); n+=1
                if log!=blog or notes:
                    kind = 'K1-shape' if any(s[0]=='ev' for s in plan) and not notes and len(log)<len(blog) else 'OTHER'
                    bads.setdefault(kind,[]).append((p,plan,notes,log[-3:],blog[-3:]))
    return progs,n,bads
for d,S in ((3,2),(4,1),(4,2)):
    t=time.perf_counter(); progs,n,b=explore(d,S)
    print('depth',d,'S',S,'programs',progs,'plan-executions',n,{k:len(v) for k,v in b.items()},round(time.perf_counter()-t,1),'s')
    for k,v in b.items(): print('  ',k,str(v[0])[:600])
