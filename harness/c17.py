"""C17 - TCP sends only inside its window and adapts it by the Reno / CUBIC rules."""
from mc.explore import Result
from mc.kclient import INF

from onl.sim import Environment
from onl.packet import Packet, TCPPacketGenerator, TCPReno, TCPCubic
from onl.packet.tcp_generator import Flow

PROPERTY = "C17"
CLAUSES = ["C17.noraise", "C17.guard", "C17.newack", "C17.fr", "C17.inflate", "C17.deflate", "C17.timeout", "C17.floor", "C17.rto"]
RULE = ("every history of <= D network events at a real TCPPacketGenerator whose output is a tap: new ACK advancing 1|2|3 "
        "segments (bounded by what is outstanding) with RTT sample 0.5|1|3, duplicate ACK, clock +0.5, advance to the next "
        "retransmission-timer expiry; TCPReno from (cwnd, ssthresh) in {(512,65535),(1024,1024),(2048,1024),(1536,1100),(300 MSS,400 MSS)} and "
        "TCPCubic from its defaults and after a loss; plus a 600-MSS window in congestion avoidance and RTT samples of 64 s; the kernel is run to quiescence at the instant of every event; "
        "non-trivial = the history contains a third duplicate ACK, a timer expiry, or congestion avoidance; distinct = distinct "
        "(start state, history, window trajectory)")
ASSUMPTIONS = [
    "reference = the statement's rules, evaluated with the same float formulas, relative tolerance 1e-9",
    "left open by the statement and accepted either way: the order in which several timers due at one instant fire, whether further duplicate ACKs retransmit again, whether new data is "
    "sent while duplicate ACKs inflate the window (only 'never beyond the window' is checked), CUBIC's epoch bookkeeping on a "
    "fast retransmit (taken as the code has it; the per-ACK update is the CUBIC paper's pseudo-code in bytes, and because cwnd only moves once cwnd_cnt exceeds cnt, the public pacing figures cnt / cwnd_cnt / W_tcp are compared too)",
]
MSS = 512
RTTS = [0.5, 1, 3]
RTTS0 = [0, 0.5, 3]


def plan(tier, seed):
    quick = tier == "quick"
    d = 5 if quick else 6
    cfgs = []
    for (cw, ss) in ((512, 65535), (1024, 1024), (2048, 1024), (1536, 1100)):
        cfgs.append(dict(cc="reno", cwnd=cw, ssthresh=ss, depth=d))
    # a window of 300 segments (constants that only bite above 64 KiB); every execution handles 300 timers, so a shallower history
    cfgs.append(dict(cc="reno", cwnd=300 * 512, ssthresh=400 * 512, depth=d - 2))
    cfgs.append(dict(cc="cubic", depth=d))
    cfgs.append(dict(cc="cubic", depth=d, pre=["dup", "dup", "dup", ("new", 1, 1), ("new", 1, 1)]))
    cfgs.append(dict(cc="reno", cwnd=4096, ssthresh=1024, depth=d, pre=["dup", "dup", "dup"]))
    # congestion avoidance above MSS*MSS bytes (the per-ACK increment falls below one byte); RTT samples of a minute
    cfgs.append(dict(cc="reno", cwnd=600 * 512, ssthresh=1024, depth=d - 3))
    cfgs.append(dict(cc="reno", cwnd=1024, ssthresh=1024, depth=d - 1, rtts=[1, 64]))
    cfgs.append(dict(cc="cubic", depth=d - 1, rtts=[1, 64]))
    # fixed long histories: thousands of ACKs per second for seconds (one CUBIC epoch with thousands of ACKs; Reno likewise)
    for cc_ in ("cubic", "reno"):
        for (rtt, dt) in ((0.001, 0.0005), (0.01, 0.002)):
            c = dict(cc=cc_, depth=0, flowsize=40000, longrun=dict(n=4000 if quick else 12000, rtt=rtt, dt=dt, loss_every=1500))
            if cc_ == "reno":
                c.update(cwnd=1024, ssthresh=4096)
            cfgs.append(c)
    # a flow whose finish time passes while data is still unacknowledged: retransmissions go on
    cfgs.append(dict(cc="reno", cwnd=2048, ssthresh=1024, depth=d - 1, finish=1.25))
    cfgs.append(dict(cc="cubic", depth=d - 1, finish=0.75, pre=["dup", "dup"]))
    # RTT samples of exactly 0 (zero-delay paths)
    cfgs.append(dict(cc="cubic", depth=d - 1, pre=["dup", "dup", "dup", ("new", 1, 0), ("new", 1, 0)], rtt0=1))
    cfgs.append(dict(cc="reno", cwnd=1024, ssthresh=1024, depth=d - 1, rtt0=1))
    # an application that hands over one segment per second: the sender sleeps between segments while the window may shrink
    cfgs.append(dict(cc="reno", cwnd=2048, ssthresh=1024, depth=d, app=1))
    cfgs.append(dict(cc="cubic", depth=d, app=1))
    return {"cfgs": cfgs, "budget": None, "bound": "histories of <=%d events (after fixed prefixes for the CUBIC/fast-recovery start states)" % d}


def close(a, b):
    return abs(a - b) <= 1e-9 * max(1.0, abs(a), abs(b))


class Ref:
    def __init__(self, cfg):
        self.cubic = cfg["cc"] == "cubic"
        self.cwnd = 512 if self.cubic else cfg["cwnd"]
        self.ssthresh = 65535 if self.cubic else cfg["ssthresh"]
        self.dupack = 0
        self.srtt = 1.0
        self.rttvar = 0
        self.rto = 2.0
        self.last_ack = 0
        self.next_seq = 0
        self.timers = {}          # seq -> expiry instant
        # CUBIC (paper's names)
        self.W_last_max = 0; self.epoch_start = 0; self.origin_point = 0; self.dMin = 0; self.W_tcp = 0
        self.K = 0; self.ack_cnt = 0; self.cwnd_cnt = 0; self.cnt = 0
        self.beta = 0.2; self.C = 0.4

    def grow(self, rtt, now):
        if not self.cubic:
            if self.cwnd <= self.ssthresh:
                self.cwnd += MSS
            else:
                self.cwnd += MSS * MSS / self.cwnd
            return
        self.dMin = min(self.dMin, rtt) if self.dMin > 0 else rtt
        if self.cwnd <= self.ssthresh:
            self.cwnd += MSS
            return
        # cubic_update
        self.ack_cnt += 1
        if self.epoch_start <= 0:
            self.epoch_start = now
            if self.cwnd < self.W_last_max:
                self.K = ((self.W_last_max - self.cwnd) / self.C) ** (1.0 / 3)
                self.origin_point = self.W_last_max
            else:
                self.K = 0
                self.origin_point = self.cwnd
            self.ack_cnt = 1
            self.W_tcp = self.cwnd
        t = now + self.dMin - self.epoch_start
        target = self.origin_point + self.C * (t - self.K) ** 3
        self.cnt = self.cwnd / (target - self.cwnd) if target > self.cwnd else 100 * self.cwnd
        # TCP friendliness
        self.W_tcp += 3 * self.beta / (2 - self.beta) * (self.ack_cnt / self.cwnd)
        self.ack_cnt = 0
        if self.W_tcp > self.cwnd:
            max_cnt = self.cwnd / (self.W_tcp - self.cwnd)
            if self.cnt > max_cnt:
                self.cnt = max_cnt
        if self.cwnd_cnt > self.cnt:
            self.cwnd += MSS
            self.cwnd_cnt = 0
        else:
            self.cwnd_cnt += 1

    def new_ack(self, ackno, rtt, now):
        if self.dupack >= 3:
            self.cwnd = self.ssthresh
        self.dupack = 0
        err = rtt - self.srtt
        self.srtt += 0.125 * err
        self.rttvar += 0.25 * (abs(err) - self.rttvar)
        self.rto = self.srtt + 4 * self.rttvar
        self.last_ack = ackno
        self.grow(rtt, now)
        for s in [s for s in self.timers if s < ackno]:
            del self.timers[s]

    def dup_ack(self):
        self.dupack += 1
        if self.dupack == 3:
            self.ssthresh = max(2 * MSS, self.cwnd / 2)
            self.cwnd = self.ssthresh + 3 * MSS
            return "fr"
        if self.dupack > 3:
            self.cwnd += MSS
            return "inflate"
        return None

    def timeout(self, seq, now):
        self.cwnd = MSS
        if self.cubic:
            self.W_last_max = 0; self.epoch_start = 0; self.origin_point = 0; self.dMin = 0; self.W_tcp = 0; self.K = 0; self.ack_cnt = 0
        self.rto *= 2
        self.timers[seq] = now + self.rto


def execute(ch, cfg):
    res = Result()
    env = Environment()
    if cfg.get("app"):
        flow = Flow(flow_id=0, src="s", dst="d", start_time=0, finish_time=10 ** 9, size=None, arrival_dist=lambda: 1.0, size_dist=lambda: MSS)
    else:
        flow = Flow(flow_id=0, src="s", dst="d", start_time=0, finish_time=cfg.get("finish", 10 ** 9), size=cfg.get("flowsize", 400) * MSS)
    cc = TCPCubic() if cfg["cc"] == "cubic" else TCPReno(mss=MSS, cwnd=cfg["cwnd"], ssthresh=cfg["ssthresh"])
    ref = Ref(cfg)
    sent = []          # (time, packet_id, size, is_retransmission)
    hist = []
    tag = "TCP(%s)" % cfg["cc"]
    state = {"hi": 0}

    class Tap:
        def put(self, p):
            retx = p.packet_id < state["hi"]
            sent.append((env.now, p.packet_id, p.size, retx))
            if not retx:
                state["hi"] = p.packet_id + p.size
    bad = []

    def quiesce():
        n = 0
        while env.peek() <= env.now and n < 5000:
            env.step()
            n += 1

    def check_new_segments(since, where, before=None):
        """segments emitted and not yet accounted for (optionally only those emitted before instant `before`): new ones
        must be MSS-sized, consecutive and inside the window in force when they were sent"""
        since = state.get("checked", 0)
        upto = len(sent)
        if before is not None:
            # everything emitted before the retransmission that marks the timer's firing (also within that instant)
            upto = since
            while upto < len(sent) and not (sent[upto][3] and sent[upto][0] >= before):
                upto += 1
        state["checked"] = upto
        for (t, pid, size, retx) in sent[since:upto]:
            if retx:
                continue
            res.ev("C17.guard")
            if size != MSS or pid != ref.next_seq:
                bad.append(("C17.guard", tag + ":new-segment-not-MSS-sized-or-not-consecutive", "%s: segment id %r size %r, expected id %r" % (where, pid, size, ref.next_seq)))
                return
            if not (ref.next_seq + MSS <= ref.last_ack + ref.cwnd + 1e-9):
                bad.append(("C17.guard", tag + ":new-segment-beyond-the-congestion-window", "%s: next_seq %r + MSS > last_ack %r + cwnd %r" % (where, ref.next_seq, ref.last_ack, ref.cwnd)))
                return
            ref.next_seq += MSS
            ref.timers[pid] = t + ref.rto

    def compare(where, clause):
        ccw = sender.congestion_control
        res.ev(clause)
        if not close(ccw.cwnd, ref.cwnd):
            bad.append((clause, "%s:cwnd-after-%s" % (tag, where), "history %r: cwnd %r, reference %r (ssthresh %r)" % (hist, ccw.cwnd, ref.cwnd, ref.ssthresh)))
        elif not close(ccw.ssthresh, ref.ssthresh):
            bad.append((clause, "%s:ssthresh-after-%s" % (tag, where), "history %r: ssthresh %r, reference %r" % (hist, ccw.ssthresh, ref.ssthresh)))
        elif sender.last_ack != ref.last_ack or sender.next_seq != ref.next_seq:
            bad.append(("C17.guard", "%s:sequence-state-after-%s" % (tag, where), "history %r: last_ack %r next_seq %r, reference %r %r" % (hist, sender.last_ack, sender.next_seq, ref.last_ack, ref.next_seq)))
        elif ref.cubic and not (close(ccw.cnt, ref.cnt) and ccw.cwnd_cnt == ref.cwnd_cnt and close(ccw.W_tcp, ref.W_tcp)):
            # cwnd moves only once cwnd_cnt exceeds cnt: the pacing figures are compared as well
            bad.append((clause, "%s:cubic-pacing-state-after-%s" % (tag, where), "history %r: cnt %r cwnd_cnt %r W_tcp %r, reference %r %r %r" % (
                hist, ccw.cnt, ccw.cwnd_cnt, ccw.W_tcp, ref.cnt, ref.cwnd_cnt, ref.W_tcp)))
        res.ev("C17.floor")
        if ccw.cwnd < MSS - 1e-9:
            bad.append(("C17.floor", tag + ":cwnd-below-one-MSS", "history %r: cwnd %r" % (hist, ccw.cwnd)))

    def do(ev):
        """apply one event to the real sender and to the reference"""
        hist.append(ev)
        n0 = len(sent)
        if ev == "dup":
            a = Packet(env.now - 1, 40, max(0, ref.last_ack - MSS), flow_id=10000)
            a.ack = ref.last_ack
            sender.put(a)
            quiesce()
            kind = ref.dup_ack()
            retx = [s for s in sent[n0:] if s[3]]
            if kind == "fr":
                state["nt"] = True
                res.ev("C17.fr")
                outstanding = ref.last_ack < ref.next_seq
                if outstanding and [s[1] for s in retx] != [ref.last_ack]:
                    bad.append(("C17.fr", tag + ":third-duplicate-ack-did-not-retransmit-the-missing-segment", "history %r: retransmitted %r, missing segment %r" % (hist, [s[1] for s in retx], ref.last_ack)))
                if not outstanding and retx:
                    bad.append(("C17.fr", tag + ":retransmission-with-nothing-outstanding", "history %r" % hist))
            elif any(s[1] != ref.last_ack for s in retx) or (kind is None and retx):
                bad.append(("C17.fr", tag + ":unexpected-retransmission-on-duplicate-ack", "history %r: %r" % (hist, retx)))
            check_new_segments(n0, "duplicate ack")
            compare("third-duplicate-ack" if kind == "fr" else ("further-duplicate-ack" if kind else "duplicate-ack-%d" % ref.dupack),
                    "C17.fr" if kind == "fr" else ("C17.inflate" if kind else "C17.newack"))
        elif ev[0] == "new":
            k, r = ev[1], ev[2]
            ackno = ref.last_ack + k * MSS
            a = Packet(env.now - r, 40, ackno - MSS, flow_id=10000)
            a.ack = ackno
            was = ref.dupack
            sender.put(a)
            quiesce()
            ref.new_ack(ackno, r, env.now)
            if ref.cwnd > ref.ssthresh:
                state["nt"] = True
            if any(s[3] for s in sent[n0:]):
                bad.append(("C17.newack", tag + ":retransmission-on-a-new-ack", "history %r" % hist))
            check_new_segments(n0, "new ack")
            compare("new-ack-after-%s" % ("fast-recovery" if was >= 3 else ("%d-duplicates" % was if was else "no-duplicates")),
                    "C17.deflate" if was else "C17.newack")
            res.ev("C17.rto")
            if not close(sender.rto, ref.rto):
                bad.append(("C17.rto", tag + ":rto-differs-from-srtt+4*rttvar", "history %r: rto %r, reference %r" % (hist, sender.rto, ref.rto)))
        elif ev == "clock" or ev[0] == "tick":
            target = env.now + (0.5 if ev == "clock" else ev[1])
            # keep the target clear of every timer expiry: an expiry within rounding distance of it could fall on either side
            while any(abs(w - target) <= 1e-9 * max(1.0, target) for w in ref.timers.values()):
                target += (0.5 if ev == "clock" else ev[1]) / 16
            # a timer may expire on the way
            expire_until(target)
            if env.now < target:
                env.run(until=target)
                quiesce()
            check_new_segments(0, "clock")
            compare("clock", "C17.guard")
        elif ev == "expiry":
            expire_until(INF)

    def expire_until(limit):
        """run until the next retransmission timer fires (at most up to `limit`)"""
        while ref.timers:
            seq = min(ref.timers, key=lambda s: (ref.timers[s], s))
            when = ref.timers[seq]
            if when > limit:
                return
            n0 = len(sent)
            # run the kernel through the expiry instant
            if when > env.now:
                env.run(until=when)
            quiesce()
            # (with RTT samples that are not binary fractions the timer's own now + (expiry - now) may land an ulp off)
            while env.peek() <= when + 1e-9 * max(1.0, when):
                env.step()
            quiesce()
            state["nt"] = True
            res.ev("C17.timeout")
            retx = [s for s in sent[n0:] if s[3]]
            # data handed over by the application while the clock advanced is accounted first: its timers may be due now too
            check_new_segments(n0, "before timer expiry", before=when)
            if bad:
                return
            due = sorted(s for s in ref.timers if ref.timers[s] == when)
            if sorted(s[1] for s in retx) != due or any(not close(s[0], when) for s in retx):
                bad.append(("C17.timeout", tag + ":timer-expiry-did-not-retransmit-the-segment", "history %r: at t=%r retransmitted %r, timers due %r" % (hist, when, retx, due)))
                return
            # several timers due at one instant fire in the order their expiries were scheduled (kernel order), which the
            # statement does not fix: the reference follows the observed order (each expiry doubles the RTO the next one uses)
            for s in [r[1] for r in retx]:
                ref.timeout(s, when)
            check_new_segments(n0, "timer expiry")
            compare("retransmission-timeout", "C17.timeout")
            res.ev("C17.rto")
            if not close(sender.rto, ref.rto):
                bad.append(("C17.timeout", tag + ":rto-not-doubled-on-timeout", "history %r: rto %r, reference %r" % (hist, sender.rto, ref.rto)))
            if bad or limit == INF:
                return
    err = None
    state["nt"] = False
    res.ev("C17.noraise")
    try:
        sender = TCPPacketGenerator(env, flow=flow, cc=cc, element_id="s", rtt_estimate=1.0)
        sender.out = Tap()
        quiesce()
        check_new_segments(0, "start")
        compare("start", "C17.guard")
        for ev in cfg.get("pre", []):
            do(tuple(ev) if isinstance(ev, list) else ev)
            if bad:
                break
        n = 0
        if cfg.get("longrun"):
            # one fixed long history: an ACK for up to three segments every dt seconds with RTT samples rtt (thousands of
            # congestion-avoidance ACKs inside one CUBIC epoch), every 1500th ACK preceded by three duplicates
            lr = cfg["longrun"]
            for i in range(lr["n"]):
                if bad:
                    break
                outstanding = (ref.next_seq - ref.last_ack) // MSS
                if outstanding and lr.get("loss_every") and i and i % lr["loss_every"] == 0:
                    for _ in range(3):
                        do("dup")
                if outstanding:
                    do(("new", min(3, outstanding), lr["rtt"]))
                if not bad:
                    do(("tick", lr["dt"]))
            hist[:] = ["long run of %d events" % len(hist)] + hist[-6:]
        while n < cfg["depth"] and not bad:
            outstanding = (ref.next_seq - ref.last_ack) // MSS
            menu = [("new", k, r) for k in (1, 2, 3) if k <= outstanding for r in (cfg["rtts"] if cfg.get("rtts") else (RTTS0 if cfg.get("rtt0") else RTTS))] + ["dup", "clock"] + (["expiry"] if ref.timers else [])
            c = ch.choose(len(menu) + 1, lambda c: "event %s" % ("end" if c == 0 else (menu[c - 1],)), free=True)
            if c == 0:
                break
            n += 1
            do(menu[c - 1])
    except BaseException as e:  # noqa
        from mc.net import _where
        err = (type(e).__name__, _where(e), repr(e)[:120])
    res.digest = (tuple(str(h) for h in hist), tuple(sent), err and err[:2])
    res.nontrivial = state["nt"]
    if err and not bad:
        res.bad("C17.noraise", "%s:%s@%s" % (tag, err[0], err[1]), "history %r: %s" % (hist, err[2]))
    for b in bad[:1]:
        res.bad(*b)
    return res
