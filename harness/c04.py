"""C04 - interrupts reach a live process once, in issue order, ahead of ordinary events."""
from mc import kclient as KC
from mc.explore import Result

PROPERTY = "C04"
CLAUSES = ["C04.deliver", "C04.order", "C04.urgent", "C04.detach", "C04.keep", "C04.refuse", "C04.started"]
RULE = ("every process program of <= D executed instructions over {return, raise, timeout(0|1|2), wait/succeed a shared "
        "event, interrupt peer, interrupt self, join, spawn} where an interrupted process chooses between going on and "
        "waiting for the same target again (one configuration uses the legal falsy causes 0, '' and ()); plus victims whose target is a condition event (all_of / any_of over a timeout and a shared event), interrupted 1-2 times at chosen instants, with or without a co-waiter, re-yielding the same condition object; plus a victim referenced by nobody but the kernel, with <= 2 garbage collections placed between any kernel steps; non-trivial = at least one interrupt was delivered; distinct = distinct logs")
ASSUMPTIONS = [
    "a created-but-not-started process is live: interrupting it must be accepted and delivered after its first statement",
    "detachment is observed through unique value tags: a process resumed by an abandoned target would receive a value that "
    "does not belong to the event it is waiting for, or be resumed outside that event's processing step",
]
OPS = ["ret", "raise", ("T", 0), ("T", 1), ("T", 2), ("W", 0, True), ("S", 0), "I", "Iself", ("J", True), "Sp"]
# second alphabet: interrupts issued from a plain callback (by no process), handlers that die of a non-Exception
OPS2 = ["ret", "raiseB", ("T", 0), ("T", 1), ("W", 0, True), ("S", 0), ("CBI", 0), "I", ("J", True)]
MAP = {"deliver": "C04.deliver", "order": "C04.order", "urgent": "C04.urgent", "refuse": "C04.refuse", "started": "C04.started"}
# generic delivery clauses that, in this alphabet, speak about detachment / the abandoned target keeping its outcome
MAP2 = {"once": "C04.detach", "value": "C04.detach", "processed": "C04.keep", "term": "C04.keep"}


def plan(tier, seed):
    quick = tier == "quick"
    d = 6 if quick else 7
    cfgs = [dict(depth=d, nproc=2), dict(depth=d - 1, nproc=3), dict(depth=d - 1, nproc=2, falsy=1), dict(kind="cond"), dict(kind="gc"),
            dict(depth=d, nproc=2, ops=2), dict(depth=d - 1, nproc=2, duck=1),
            # timeouts that carry no callback of ours: a timer whose only waiter was interrupted away has no callbacks left
            dict(depth=d - 1, nproc=2, noprobe_to=1)]
    return {"cfgs": cfgs, "budget": None, "bound": "D<=%d with 2 initial processes, D<=%d with 3; <=4 processes (reactions count as instructions)" % (d, d - 1)}


def exec_gc(ch, cfg):
    """nobody but the kernel knows the victim: the interrupter drops its handle right after interrupt(), and the garbage
    collector may run between any two kernel steps (its timing is one more scheduler the program does not control)"""
    import gc
    from onl.sim import Environment, Interrupt
    res = Result()
    env = Environment()
    log = []
    wait_kind = ch.choose(3, lambda c: "victim waits on " + ["a private event", "timeout(5)", "a shared event that succeeds at t=3"][c], free=True)
    when = ch.choose(3, lambda c: "interrupt at t=%d" % c, free=True)
    twice = ch.choose(2, lambda c: "second interrupt at the same instant: %s" % bool(c), free=True)
    shared = env.event()

    def victim():
        for _ in range(3):
            try:
                if wait_kind == 0:
                    yield env.event()
                elif wait_kind == 1:
                    yield env.timeout(5)
                    log.append(("timeout", env.now))
                    return
                else:
                    v = yield shared
                    log.append(("shared", env.now, v))
                    return
            except Interrupt as i:
                log.append(("interrupt", env.now, i.cause))

    def interrupter():
        p = env.process(victim())
        if when:
            yield env.timeout(when)
        else:
            yield env.timeout(0)
        p.interrupt("first")
        if twice:
            p.interrupt("second")
        del p

    def trigger():
        yield env.timeout(3)
        shared.succeed("sv")
    env.process(interrupter())
    env.process(trigger())
    ncollect = 0
    err = None
    try:
        steps = 0
        while env.peek() < float("inf") and steps < 40:
            if ncollect < 2 and ch.choose(2, lambda c: "garbage collection before kernel step %d: %s" % (steps, bool(c))):
                gc.collect()
                ncollect += 1
            env.step()
            steps += 1
    except BaseException as e:  # noqa
        err = (type(e).__name__, repr(e)[:100])
    res.digest = (wait_kind, when, twice, tuple(log), err)
    res.nontrivial = ncollect > 0
    res.ev("C04.deliver", 1 + twice)
    want = [("interrupt", when, "first")] + ([("interrupt", when, "second")] if twice else [])
    if err:
        res.bad("C04.deliver", "unreferenced-victim:run-raised-%s" % err[0], err[1])
    elif log[:len(want)] != want:
        res.bad("C04.deliver", "unreferenced-victim:interrupt-not-delivered", "victim saw %r, expected first %r" % (log, want))
    elif wait_kind == 2 and log[len(want):] != [("shared", 3, "sv")]:
        res.bad("C04.keep", "unreferenced-victim:lost-after-the-interrupt", "victim saw %r" % (log,))
    elif wait_kind == 1 and log[len(want):] != [("timeout", when + 5)]:
        res.bad("C04.keep", "unreferenced-victim:lost-after-the-interrupt", "victim saw %r" % (log,))
    return res


def execute(ch, cfg):
    if cfg.get("kind") == "cond":
        return exec_cond(ch, cfg)
    if cfg.get("kind") == "gc":
        return exec_gc(ch, cfg)
    k = KC.K(ch, OPS2 if cfg.get("ops") == 2 else OPS, cfg["depth"], nproc=cfg["nproc"], reaction=True, falsy_causes=bool(cfg.get("falsy")), duck=bool(cfg.get("duck")), probe_timeouts=not cfg.get("noprobe_to")).run()
    res = Result()
    res.digest = k.digest()
    viol, nt = KC.check_interrupts(k)
    v2, _ = KC.check_delivery(k)
    res.nontrivial = nt
    n = sum(1 for e in k.log if e[3] in ("issue", "resume", "refused"))
    for c in CLAUSES:
        res.ev(c, n)
    for (g, shape, msg) in list(k.bad) + viol:
        if g in MAP:
            res.bad(MAP[g], shape, msg)
    if not res.violations:
        for (g, shape, msg) in v2:
            if g in MAP2:
                res.bad(MAP2[g], shape, msg)
            elif g == "crash" and k.crashed is not None and k.crashed[1] not in ("Err", "Abort"):
                res.bad("C04.deliver", "run-raised-%s" % k.crashed[1], msg)
    return res


def exec_cond(ch, cfg):
    """a victim waits on a condition, is interrupted, yields the same condition again: the condition keeps working"""
    from onl.sim import Environment, Interrupt
    res = Result()
    env = Environment()
    kind = ch.choose(2, lambda c: ["all_of", "any_of"][c], free=True)
    tdelay = 1 + ch.choose(3, lambda c: "timeout operand %d" % (c + 1), free=True)
    etime = ch.choose(4, lambda c: "shared-event operand succeeds at %d" % c, free=True)
    nintr = 1 + ch.choose(2, lambda c: "%d interrupt(s)" % (c + 1), free=True)
    itimes = [ch.choose(4, lambda c, i=i: "interrupt %d at t=%d" % (i, c), free=True) for i in range(nintr)]
    cow = ch.choose(2, lambda c: "co-waiter on the condition: %s" % bool(c), free=True)
    order = ch.choose(2, lambda c: "interrupter created %s the victim" % ("before" if c else "after"), free=True)
    log = []
    ev = env.event()
    holder = {}

    def victim():
        t = env.timeout(tdelay, value="tv")
        cond = env.all_of([t, ev]) if kind == 0 else env.any_of([t, ev])
        holder["cond"] = cond
        holder["t"] = t
        while True:
            try:
                v = yield cond
                log.append(("victim", env.now, tuple(sorted(str(x) for x in v.todict().values()))))
                return
            except Interrupt as i:
                log.append(("intr", env.now, i.cause))

    def cowaiter():
        yield env.timeout(0)
        v = yield holder["cond"]
        log.append(("cow", env.now, tuple(sorted(str(x) for x in v.todict().values()))))

    def setter():
        if etime:
            yield env.timeout(etime)
        ev.succeed("ev")

    def interrupter():
        last = 0
        for k, it in enumerate(sorted(itimes)):
            if it > last:
                yield env.timeout(it - last)
                last = it
            if vp.is_alive:
                vp.interrupt(("i", k))
                log.append(("issue", env.now, ("i", k)))
    if order:
        ip = env.process(interrupter())
        vp = env.process(victim())
    else:
        vp = env.process(victim())
        ip = env.process(interrupter())
    env.process(setter())
    if cow:
        env.process(cowaiter())
    err = None
    try:
        env.run(until=20)
    except BaseException as e:  # noqa
        err = type(e).__name__
    res.digest = (kind, tdelay, etime, tuple(itimes), cow, order, tuple(log), err)
    res.nontrivial = any(x[0] == "intr" for x in log)
    for c in ("C04.keep", "C04.deliver", "C04.detach"):
        res.ev(c)
    when = max(tdelay, etime) if kind == 0 else min(tdelay, etime)
    issued = [x for x in log if x[0] == "issue"]
    got = [x for x in log if x[0] == "intr"]
    if err:
        res.bad("C04.deliver", "condition-target:run-raised-%s" % err, "%r" % (res.digest,))
        return res
    if [(x[1], x[2]) for x in issued] != [(x[1], x[2]) for x in got]:
        res.bad("C04.deliver", "condition-target:interrupts-not-delivered-in-order-at-the-issue-instant", "issued %r received %r" % (issued, got))
        return res
    vic = [x for x in log if x[0] == "victim"]
    if len(vic) != 1 or vic[0][1] != when:
        res.bad("C04.keep", "condition-target:re-yielded-condition-%s" % ("never-fires" if not vic else "fires-at-the-wrong-instant"),
                "%s(timeout %d, event at %d), interrupts at %r: victim log %r, expected to resume at %d" % (["all_of", "any_of"][kind], tdelay, etime, itimes, vic, when))
        return res
    if cow:
        cw = [x for x in log if x[0] == "cow"]
        if len(cw) != 1 or cw[0][1] != when:
            res.bad("C04.keep", "condition-target:co-waiter-lost-the-condition's-outcome", "co-waiter log %r, expected at %d" % (cw, when))
    return res
