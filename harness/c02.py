"""C02 - every waiter gets an event's outcome exactly once; failures are never lost."""
from mc import kclient as KC
from mc.explore import Result

PROPERTY = "C02"
CLAUSES = ["C02.once", "C02.value", "C02.processed", "C02.retrigger", "C02.term", "C02.crash"]
RULE = ("every process program of <= D executed instructions over {return, raise, value-carrying timeout(0|1), wait on a "
        "shared event catching/not catching, succeed/fail it, register a plain callback on it, join a peer catching/not "
        "catching, spawn; a third alphabet adds falsy return values (0, '', False), a BaseException that is not an Exception and the exported StopProcess; two configurations attach no probe to process events} with 2 initial and <= 4 processes; non-trivial = some event had >= 2 registered waiters besides "
        "the probe, or failed; distinct = distinct observation logs")
ASSUMPTIONS = [
    "reference 'handled' rule: a failed event is handled iff at least one process is waiting on it when it is processed "
    "(plain callbacks do not handle it); otherwise step()/run() must raise an exception of the same type and args at that instant",
    "exception identity is compared by type and args (the kernel hands every waiter its own copy)",
]
OPS = ["ret", "raise", ("T", 0), ("T", 1), ("W", 0, True), ("W", 0, False), ("S", 0), ("F", 0), ("J", True), ("J", False),
       "Sp", ("CB", 0)]
# third alphabet: falsy return values and exceptions that are not Exception subclasses
OPS3 = ["ret", "ret0", "raise", "raiseB", "raiseSP", ("T", 0), ("T", 1), ("J", True), ("J", False), ("W", 0, True), ("S", 0), "Sp"]
OPS2 = ["ret", "raise", ("T", 0), ("W", 0, True), ("W", 1, False), ("S", 0), ("F", 0), ("S", 1), ("F", 1), ("J", True), ("CB", 1)]
MAP = {"once": "C02.once", "value": "C02.value", "processed": "C02.processed", "retrigger": "C02.retrigger",
       "term": "C02.term", "crash": "C02.crash"}


def plan(tier, seed):
    quick = tier == "quick"
    d = 6 if quick else 7
    cfgs = [dict(depth=d, ops=1, nproc=2), dict(depth=d, ops=2, nproc=2), dict(depth=d - 1, ops=1, nproc=3), dict(depth=d - 1, ops=3, nproc=2),
            # process events without any callback of ours: a terminated process must be processed even when nobody waits yet
            dict(depth=d - 1, ops=1, nproc=2, noprobe=1), dict(depth=d - 1, ops=3, nproc=2, noprobe=1)]
    return {"cfgs": cfgs, "budget": None, "bound": "D<=%d with 2 initial processes (alphabets: one / two shared events; falsy returns + non-Exception BaseException at D-1), D<=%d with 3; <=4 processes" % (d, d - 1)}


def execute(ch, cfg):
    k = KC.K(ch, {1: OPS, 2: OPS2, 3: OPS3}[cfg["ops"]], cfg["depth"], nproc=cfg["nproc"], reaction=False, probe_procs=not cfg.get("noprobe")).run()
    res = Result()
    res.digest = k.digest()
    viol, nt = KC.check_delivery(k)
    res.nontrivial = nt
    n = sum(1 for e in k.log if e[3] in ("resume", "probe"))
    for c in CLAUSES:
        res.ev(c, n)
    for (g, shape, msg) in list(k.bad) + viol:
        if g in MAP:
            res.bad(MAP[g], shape, msg)
    return res
