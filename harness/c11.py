"""C11 - TokenBucket / TwoRateTokenBucket: exact release instants, conformance, colours."""
from fractions import Fraction as Fr

from mc import net as N
from mc import explore
from mc.explore import Result

from onl.netdev import TokenBucket, TwoRateTokenBucket

PROPERTY = "C11"
CLAUSES = ["C11.noraise", "C11.once", "C11.fifo", "C11.tb.time", "C11.tb.conform", "C11.tb.peak",
           "C11.tr.time", "C11.tr.colour", "C11.tr.conform"]
RULE = ("every arrival workload of <= N packets (gap in {same step, +1, +2, +8 = refill to the cap} x size in {1,2,4}, "
        "4 > every bucket) for every (rate, bucket, peak) / (CIR, CBS, PIR, PBS); non-trivial = some packet had to wait "
        "for tokens; distinct = distinct (workload, release instants, colours)")
ASSUMPTIONS = [
    "reference bucket in exact rationals; rates 8/16 bit/s so the implementation's float arithmetic is exact",
    "two-rate colours: the committed-bucket level is bracketed between the code's debit rules (yellow empties it, refill "
    "pauses during a red wait) and RFC 2698's (neither); green is demanded when the size fits the lower bound, yellow "
    "when it exceeds the upper bound, otherwise either colour is admissible; red <=> had to wait for peak tokens is exact",
]


def plan(tier, seed):
    quick = tier == "quick"
    n = 4 if quick else 5
    cfgs = []
    for rate in (8, 16):
        for b in (1, 2, 3):
            for peak in (None, 16, 32):
                cfgs.append(dict(kind="tb", rate=rate, bucket=b, peak=peak, N=n if peak is None or not quick else n - 1,
                                 gaps=["S", 1, 2, 8], sizes=[1, 2, 4], order=0))
    cfgs.append(dict(kind="tb", rate=8, bucket=2, peak=16, N=n - 1, gaps=["S", "N", 1, 2, 8], sizes=[1, 2, 4], order=1))
    for cbs in (2, 3):
        cfgs.append(dict(kind="tr", cir=8, cbs=cbs, pir=None, pbs=None, N=n, gaps=["S", 1, 2, 8], sizes=[1, 2, 4], order=0))
        for pbs in (2, 4):
            cfgs.append(dict(kind="tr", cir=8, cbs=cbs, pir=16, pbs=pbs, N=n, gaps=["S", 1, 2, 8], sizes=[1, 2, 4], order=0))
    cfgs.append(dict(kind="tr", cir=8, cbs=2, pir=16, pbs=4, N=n - 1, gaps=["S", "N", 1, 2, 8], sizes=[1, 2, 4], order=1))
    cfgs.append(dict(kind="tr", cir=8, cbs=2, pir=16, pbs=4, N=n, gaps=["S", 1, 2, 8], sizes=[1, 2, 4], order=0, premark=1))
    cfgs.append(dict(kind="tr", cir=8, cbs=3, pir=None, pbs=None, N=n, gaps=["S", 1, 2, 8], sizes=[1, 2, 4], order=0, premark=1))
    # a peak bucket size without a peak rate: no PIR is given, so shaping is against (CIR, CBS)
    cfgs.append(dict(kind="tr", cir=8, cbs=2, pir=None, pbs=4, N=n, gaps=["S", 1, 2, 8], sizes=[1, 2, 4], order=0))
    cfgs.append(dict(kind="tr", cir=8, cbs=3, pir=None, pbs=2, N=n, gaps=["S", 1, 2, 8], sizes=[1, 2, 4], order=0))
    # every configuration once more with long fixed workloads (state that only breaks after hundreds of packets)
    nlong = explore.add_long(cfgs, 200 if quick else 600, burst=400)
    ndebug = explore.add_debug_variants(cfgs)      # the same with every element constructed with debug=True
    # rates and sizes whose quotients are not binary fractions (10 Mbit/s with 1500-byte packets; 12 bit/s): instants are
    # compared with a relative tolerance of 1e-9, a decision that falls within that distance of its threshold ends the
    # evaluation of the run - except where the reference level is exactly the bucket size because the refill overshot it
    for (cir, cbs, pir, pbs) in ((10e6, 1500, None, None), (10e6, 1500, 20e6, 3000), (2.5e6, 1500, None, None)):
        cfgs.append(dict(kind="tr", cir=cir, cbs=cbs, pir=pir, pbs=pbs, N=n, gaps=["S", 0.0005, 0.002, 1], sizes=[750, 1500], order=0, approx=1))
    cfgs.append(dict(kind="tr", cir=12, cbs=2, pir=None, pbs=None, N=n, gaps=["S", 1, 2, 8], sizes=[1, 2, 4], order=0, approx=1))
    cfgs.append(dict(kind="tr", cir=12, cbs=3, pir=40, pbs=4, N=n, gaps=["S", 1, 2, 8], sizes=[1, 2, 4], order=0, approx=1))
    cfgs.append(dict(kind="tb", rate=12, bucket=2, peak=None, N=n, gaps=["S", 1, 2, 8], sizes=[1, 2, 4], order=0, approx=1))
    cfgs.append(dict(kind="tb", rate=10e6, bucket=1500, peak=40e6, N=n, gaps=["S", 0.0005, 0.002, 1], sizes=[750, 1500], order=0, approx=1))
    # an empty committed bucket (CBS 0) is a legal parameterisation: nothing is ever green / every packet waits
    cfgs.append(dict(kind="tr", cir=8, cbs=0, pir=16, pbs=4, N=n, gaps=["S", 1, 2, 8], sizes=[1, 2, 4], order=0))
    cfgs.append(dict(kind="tr", cir=8, cbs=0, pir=None, pbs=None, N=n, gaps=["S", 1, 2, 8], sizes=[1, 2, 4], order=0))
    return {"cfgs": cfgs, "budget": None,
            "bound": ("%d long fixed workloads (periodic arrival patterns); %d configurations repeated with debug=True; " % (nlong, ndebug)) + ("N<=%d; TokenBucket rate {8,16} x bucket {1,2,3} x peak {None,16,32}; TwoRate CIR 8, CBS {2,3}, PIR {None,16}, PBS {2,4}" % n)}


def near(x, y):
    return abs(Fr(x) - Fr(y)) <= Fr(1, 10 ** 9) * max(1, abs(Fr(y)))


def bucket_release(level, upd, head, size, rate, cap):
    """exact single-bucket step: returns (debit instant, new level, waited?)"""
    level = min(cap, level + Fr(rate) * (head - upd) / 8)
    if size > level:
        g = head + (size - level) * 8 / Fr(rate)
        return g, Fr(0), True
    return head, level - size, False


def execute(ch, cfg):
    res = Result()
    net = N.Net()
    env = net.env
    kind = cfg["kind"]
    items = N.menu(cfg["gaps"], [0], cfg["sizes"])
    holder = {}

    class Front:
        def put(self, pkt):
            if cfg.get("premark"):
                pkt.color = "red"       # marked by an upstream marker: this shaper decides the colour anew
            holder["e"].put(pkt)

    def mk():
        if kind == "tb":
            e = TokenBucket(env, cfg["rate"], cfg["bucket"], peak=cfg["peak"])
        else:
            e = TwoRateTokenBucket(env, cfg["cir"], cfg["cbs"], cfg["pir"], cfg["pbs"])
        e.out = net.sink()
        holder["e"] = e
    if cfg.get("order", 0) == 0:
        env.process(net.driver(ch, cfg["N"], items, Front()))
        mk()
    else:
        mk()
        env.process(net.driver(ch, cfg["N"], items, Front()))
    colours = []
    net.on_dep = lambda d: colours.append(d.pkt.color)
    err = net.run(10 ** 9)
    tag = "TokenBucket" if kind == "tb" else ("TwoRate(pir)" if cfg["pir"] else "TwoRate(no-pir)")
    res.digest = (tuple((a.t, a.size) for a in net.arrs), tuple((d.arr.i if d.arr else -1, d.t) for d in net.deps), tuple(colours), err)
    res.ev("C11.noraise")
    if err:
        res.bad("C11.noraise", "%s:%s@%s" % (tag, err[0], err[1]), err)
        return res
    res.ev("C11.once")
    if any(d.arr is None for d in net.deps):
        res.bad("C11.once", tag + ":foreign-object-at-output", "")
        return res
    got = [d.arr.i for d in net.deps]
    if got != [a.i for a in net.arrs]:
        res.ev("C11.fifo")
        shape = "duplicated" if len(set(got)) < len(got) else ("lost" if len(got) < len(net.arrs) else "reordered")
        res.bad("C11.once" if shape != "reordered" else "C11.fifo", "%s:%s" % (tag, shape), "released %s of %d arrivals" % (got, len(net.arrs)))
        return res
    res.ev("C11.fifo")
    if kind == "tb":
        check_tb(net, cfg, res, tag)
    else:
        check_tr(net, cfg, res, tag, colours)
    return res


def check_tb(net, cfg, res, tag):
    rate, cap, peak = cfg["rate"], Fr(cfg["bucket"]), cfg["peak"]
    level, upd, prev_rel = cap, Fr(0), None
    debits = []
    for a in net.arrs:
        head = Fr(a.t) if prev_rel is None else max(Fr(a.t), prev_rel)
        if cfg.get("approx"):
            raw = level + Fr(rate) * (head - upd) / 8
            if not raw > cap * (1 + Fr(1, 10 ** 6)) and near(a.size, min(cap, raw)):
                return          # the decision 'enough tokens?' is within rounding distance of its threshold
            prev_rel_obs = Fr(a.dep.t)
        g, level, waited = bucket_release(level, upd, head, a.size, rate, cap)
        upd = g
        rel = g + ((Fr(8 * a.size) / Fr(peak)) if peak else 0)
        if waited:
            res.nontrivial = True
        res.ev("C11.tb.time")
        if (Fr(a.dep.t) != rel) if not cfg.get("approx") else (abs(a.dep.t - float(rel)) > 1e-9 * max(1.0, float(rel))):
            res.bad("C11.tb.time", "%s:peak=%s:released-%s" % (tag, "set" if peak else "None", "early" if Fr(a.dep.t) < rel else "late"),
                    "packet %d size %d entered %r: released %r, reference %s (head %s, tokens short: %s)" % (a.i, a.size, a.t, a.dep.t, rel, head, waited))
            return
        debits.append((Fr(a.dep.t) - ((Fr(8 * a.size) / Fr(peak)) if peak else 0), a.size))
        prev_rel = rel
        if cfg.get("approx"):
            # follow the observed instants (they are within tolerance): errors must not accumulate in the reference
            prev_rel = Fr(a.dep.t)
            upd = prev_rel - ((Fr(8 * a.size) / Fr(peak)) if peak else 0)
    # conformance and peak spacing are implied by the exact law, but are evaluated independently on the observed instants
    for i in range(len(debits)):
        tot = 0
        for j in range(i, len(debits)):
            tot += debits[j][1]
            res.ev("C11.tb.conform")
            if tot > (max(cap, debits[i][1]) + Fr(rate) * (debits[j][0] - debits[i][0]) / 8) * (1 + (Fr(1, 10 ** 9) if cfg.get("approx") else 0)):
                res.bad("C11.tb.conform", tag + ":burst-exceeds-bucket-plus-rate", "departures %d..%d" % (i, j))
                return
    if peak:
        for k in range(1, len(net.arrs)):
            res.ev("C11.tb.peak")
            if Fr(net.arrs[k].dep.t) - Fr(net.arrs[k - 1].dep.t) < (Fr(8 * net.arrs[k].size) / Fr(peak)) * (1 - (Fr(1, 10 ** 9) if cfg.get("approx") else 0)):
                res.bad("C11.tb.peak", tag + ":departures-closer-than-peak-spacing", "packets %d,%d" % (k - 1, k))
                return


def check_tr(net, cfg, res, tag, colours):
    cir, cbs, pir, pbs = cfg["cir"], Fr(cfg["cbs"]), cfg["pir"], cfg["pbs"]
    prev_rel = None
    if pir:
        plevel, pupd = Fr(pbs), Fr(0)
        lo, lo_upd = cbs, Fr(0)          # code-like committed level (lower bound)
        hi, hi_upd = cbs, Fr(0)          # RFC-like committed level (upper bound)
    else:
        level, upd = cbs, Fr(0)
    greens = []
    for k, a in enumerate(net.arrs):
        head = Fr(a.t) if prev_rel is None else max(Fr(a.t), prev_rel)
        col = colours[k]
        approx = cfg.get("approx")

        def exact_or_far(size, raw, cap):
            """the comparison of size with min(cap, raw) is decided beyond rounding doubt"""
            if raw > cap * (1 + Fr(1, 10 ** 6)):
                return size != cap or True        # the level is exactly cap in any float implementation
            return not near(size, raw)
        if approx:
            if pir:
                ok = (exact_or_far(a.size, plevel + Fr(pir) * (head - pupd) / 8, Fr(pbs))
                      and exact_or_far(a.size, lo + Fr(cir) * (head - lo_upd) / 8, cbs)
                      and exact_or_far(a.size, hi + Fr(cir) * (head - hi_upd) / 8, cbs))
            else:
                ok = exact_or_far(a.size, level + Fr(cir) * (head - upd) / 8, cbs)
            if not ok:
                return
        if pir:
            g, plevel, waited = bucket_release(plevel, pupd, head, a.size, pir, Fr(pbs))
            pupd = g
            lo = min(cbs, lo + Fr(cir) * (head - lo_upd) / 8)
            hi = min(cbs, hi + Fr(cir) * (head - hi_upd) / 8)
            hi_upd = head
            lo_upd = g               # refill of the lower bound pauses during a red wait
            if waited:
                want = {"red"}
            elif a.size <= lo:
                want = {"green"}
            elif a.size > hi:
                want = {"yellow"}
            else:
                want = {"green", "yellow"}
        else:
            g, level, waited = bucket_release(level, upd, head, a.size, cir, cbs)
            upd = g
            want = {"yellow"} if waited else {"green"}
        if waited:
            res.nontrivial = True
        res.ev("C11.tr.time")
        if (Fr(a.dep.t) != g) if not approx else (abs(a.dep.t - float(g)) > 1e-9 * max(1.0, float(g))):
            res.bad("C11.tr.time", "%s:released-%s" % (tag, "early" if Fr(a.dep.t) < g else "late"),
                    "packet %d size %d entered %r: released %r, reference %s" % (a.i, a.size, a.t, a.dep.t, g))
            return
        res.ev("C11.tr.colour")
        if col not in want:
            res.bad("C11.tr.colour", "%s:%s-instead-of-%s" % (tag, col or "uncoloured", "/".join(sorted(want))),
                    "packet %d size %d at head %s: waited for peak tokens=%s, committed level in [%s,%s]" % (
                        a.i, a.size, head, waited, lo if pir else level, hi if pir else level))
            return
        if pir:
            if col == "green":
                lo = max(Fr(0), lo - a.size)
                hi = hi - a.size
            elif col == "yellow":
                lo = Fr(0)
        if col == "green":
            greens.append((g, a.size))
        prev_rel = g
        if approx:
            # follow the observed instant (within tolerance), so that rounding does not accumulate in the reference
            g = Fr(a.dep.t)
            prev_rel = g
            if pir:
                pupd = g
                lo_upd = g if waited else lo_upd
            else:
                upd = g
    for i in range(len(greens)):
        tot = 0
        for j in range(i, len(greens)):
            tot += greens[j][1]
            res.ev("C11.tr.conform")
            if tot > (max(cbs, greens[i][1]) + Fr(cir) * (greens[j][0] - greens[i][0]) / 8) * (1 + (Fr(1, 10 ** 9) if cfg.get("approx") else 0)):
                res.bad("C11.tr.conform", tag + ":green-traffic-exceeds-CBS-plus-CIR", "green departures %d..%d: %s" % (i, j, greens[i:j + 1]))
                return
