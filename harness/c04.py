"""C04 - interrupts reach a live process once, in issue order, ahead of ordinary events."""
from mc import kclient as KC
from mc.explore import Result

PROPERTY = "C04"
CLAUSES = ["C04.deliver", "C04.order", "C04.urgent", "C04.detach", "C04.keep", "C04.refuse", "C04.started"]
RULE = ("every process program of <= D executed instructions over {return, raise, timeout(0|1|2), wait/succeed a shared "
        "event, interrupt peer, interrupt self, join, spawn} where an interrupted process chooses between going on and "
        "waiting for the same target again; non-trivial = at least one interrupt was delivered; distinct = distinct logs")
ASSUMPTIONS = [
    "a created-but-not-started process is live: interrupting it must be accepted and delivered after its first statement",
    "detachment is observed through unique value tags: a process resumed by an abandoned target would receive a value that "
    "does not belong to the event it is waiting for, or be resumed outside that event's processing step",
]
OPS = ["ret", "raise", ("T", 0), ("T", 1), ("T", 2), ("W", 0, True), ("S", 0), "I", "Iself", ("J", True), "Sp"]
MAP = {"deliver": "C04.deliver", "order": "C04.order", "urgent": "C04.urgent", "refuse": "C04.refuse", "started": "C04.started"}
# generic delivery clauses that, in this alphabet, speak about detachment / the abandoned target keeping its outcome
MAP2 = {"once": "C04.detach", "value": "C04.detach", "processed": "C04.keep", "term": "C04.keep"}


def plan(tier, seed):
    quick = tier == "quick"
    d = 6 if quick else 7
    cfgs = [dict(depth=d, nproc=2), dict(depth=d - 1, nproc=3)]
    return {"cfgs": cfgs, "budget": None, "bound": "D<=%d with 2 initial processes, D<=%d with 3; <=4 processes (reactions count as instructions)" % (d, d - 1)}


def execute(ch, cfg):
    k = KC.K(ch, OPS, cfg["depth"], nproc=cfg["nproc"], reaction=True).run()
    res = Result()
    res.digest = k.digest()
    viol, nt = KC.check_interrupts(k)
    v2, _ = KC.check_delivery(k)
    res.nontrivial = nt
    n = sum(1 for e in k.log if e[3] in ("issue", "resume", "refused"))
    for c in CLAUSES:
        res.ev(c, n)
    for (g, shape, msg) in list(k.bad) + viol:
        if g in MAP:
            res.bad(MAP[g], shape, msg)
    if not res.violations:
        for (g, shape, msg) in v2:
            if g in MAP2:
                res.bad(MAP2[g], shape, msg)
            elif g == "crash" and k.crashed is not None and k.crashed[1] != "Err":
                res.bad("C04.deliver", "run-raised-%s" % k.crashed[1], msg)
    return res
