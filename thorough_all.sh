#!/bin/bash
# runs every thorough check sequentially, evidence to a scratch dir (background validation; not the registered evidence)
mkdir -p /tmp/thorough_ev
for i in ${CHECKS:-$(seq -w 1 20)}; do
  /usr/bin/time -f "C$i %es" /venv/bin/python run.py C$i --tier thorough --evidence-dir /tmp/thorough_ev 2>&1 | tail -3 | cut -c1-400
done
