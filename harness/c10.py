"""C10 - Wire: delivery = max(arrival + drawn delay, previous delivery); FIFO; loss only by the
(harness-owned) loss draw; Cable = two independent wires."""
import random

from mc import net as N
from mc import explore
from mc.explore import Result

from onl.netdev import Wire, Cable

PROPERTY = "C10"
CLAUSES = ["C10.noraise", "C10.once", "C10.fifo", "C10.law", "C10.loss", "C10.cable"]
RULE = ("every arrival sequence of <= N packets (gap in {same step, +1, +2}) x every delay sequence over {0,1,2,3} "
        "(drawn lazily, one draw per surviving packet) x every loss-draw vector over {0.25,0.75}; Cable: both directions "
        "driven in every interleaving; non-trivial = some packet entered while an earlier one was still propagating or "
        "a packet was lost; distinct = distinct (arrivals, draws, deliveries)")
ASSUMPTIONS = [
    "the n-th delay draw belongs to the n-th surviving packet in dequeue order; for a Cable (one shared delay_dist) draws "
    "made at one instant are attributed to the two directions in every admissible way",
    "loss draws are never equal to the loss rate (boundary has probability zero)",
]
DELAYS = [0, 1, 2, 3]
DRAWS = [0.75, 0.25]


def plan(tier, seed):
    quick = tier == "quick"
    n = 5 if quick else 6
    cfgs = []
    for loss in (None, 0, 0.5, 1):
        lossy = bool(loss)
        cfgs.append(dict(kind="wire", loss=loss, N=(n - 1 if lossy and loss != 1 else n), gaps=["S", 1, 2], order=0))
        cfgs.append(dict(kind="wire", loss=loss, N=n - 1, gaps=["S", "N", 1, 2], order=1))
    cfgs.append(dict(kind="wire", loss=None, N=n + 1, gaps=["S", 1], order=0))
    # packets of two flows (so packet ids repeat) on one wire; and a wire reached through another wire with the same id
    cfgs.append(dict(kind="wire", loss=None, N=n - 1, gaps=["S", 1, 2], order=0, twoflows=1))
    cfgs.append(dict(kind="wire", loss=None, N=n - 1, gaps=["S", 1, 2], order=0, behind=1))
    # the same packet object travels a second path too (Hub fan-out) and enters another wire one second later
    cfgs.append(dict(kind="wire", loss=None, N=n - 1, gaps=["S", 1, 2], order=0, fanout=1))
    # entry instants that are not multiples of 0.01 (trace output rounds to two decimals), with and without debug
    cfgs.append(dict(kind="wire", loss=None, N=n - 1, gaps=["S", 0.125, 1.375], order=0))
    cfgs.append(dict(kind="wire", loss=None, N=n - 1, gaps=["S", 0.125, 1.375], order=0, debug=1))
    # a nanosecond time axis (delays far below a microsecond); empty packets (pure signalling) are packets
    cfgs.append(dict(kind="wire", loss=None, N=n - 1, gaps=["S", 1, 2], order=0, scale=2.0 ** -30))
    cfgs.append(dict(kind="wire", loss=0.5, N=n - 2, gaps=["S", 1, 2], order=0, sizes=[0, 1]))
    cfgs.append(dict(kind="wire", loss=None, N=n - 1, gaps=["S", 1], order=0, sizes=[0, 1]))
    for loss in (None, 0.5):
        cfgs.append(dict(kind="cable", loss=loss, N=n - 1 if loss is None else n - 2, gaps=["S", 1, 2], order=0))
    # every configuration once more with long fixed workloads (state that only breaks after hundreds of packets)
    nlong = explore.add_long(cfgs, 300 if quick else 1000, burst=1100)
    ndebug = explore.add_debug_variants(cfgs)      # the same with every element constructed with debug=True
    return {"cfgs": cfgs, "budget": None,
            "bound": ("%d long fixed workloads (periodic arrival patterns); %d configurations repeated with debug=True; " % (nlong, ndebug)) + ("Wire: N<=%d (lossless) / %d (loss 0.5), delays {0,1,2,3}^N, loss rates {None,0,0.5,1}; Cable: N<=%d / %d over both directions" % (n, n - 1, n - 1, n - 2))}


def execute(ch, cfg):
    res = Result()
    net = N.Net()
    env = net.env
    loss = cfg["loss"]
    calls = []          # ('D'|'U', time, value)

    def delay_dist():
        d = DELAYS[ch.choose(len(DELAYS), lambda c: "delay draw %d" % DELAYS[c])] * cfg.get("scale", 1)
        calls.append(("D", env.now, d))
        return d

    def fake_uniform(a, b):
        v = DRAWS[ch.choose(len(DRAWS), lambda c: "loss draw %s" % DRAWS[c])]
        calls.append(("U", env.now, v))
        return v
    ndir = 1 if cfg["kind"] == "wire" else 2
    items = N.menu(cfg["gaps"], list(range(2 if cfg.get("twoflows") else ndir)), cfg.get("sizes", [1]))
    ends = []

    class Front:
        def put(self, pkt):
            ends[pkt.flow_id if ndir == 2 else 0].put(pkt)
            if cfg.get("fanout"):
                # a repeater (Hub) hands the very same object to a second path as well, which reaches ITS wire one
                # second later (a port in between); the wire under test must time the packet by its own entry instant
                def later(p=pkt):
                    yield env.timeout(1)
                    side[0].put(p)
                env.process(later())
    side = []

    class Relog:
        """entry tap of the wire under test when it sits behind another wire: the arrival is what comes out of the first wire"""

        def __init__(self, nxt):
            self.nxt = nxt

        def put(self, pkt):
            a = net.by_obj.get(id(pkt))
            net.seq += 1
            a.seq = net.seq
            a.t = env.now
            self.nxt.put(pkt)

    def mk():
        if cfg["kind"] == "wire":
            w = Wire(env, delay_dist, loss)
            w.out = net.sink(0)
            if cfg.get("fanout"):
                w2 = Wire(env, lambda: 0, wire_id=1)
                w2.out = type("Null", (), {"put": staticmethod(lambda p: None)})()
                side.append(w2)
            if cfg.get("behind"):
                first = Wire(env, lambda: 1)      # same default wire id as the wire under test
                first.out = Relog(w)
                ends.append(first)
            else:
                ends.append(w)
        else:
            c = Cable(env, delay_dist, loss)

            class Dev:
                out = None
            d1, d2 = Dev(), Dev()
            c.set_endpoints(d1, d2)
            # direction 0: injected at dev1.out, must arrive at dev2; direction 1 the reverse
            sinks = [net.sink(0), net.sink(1)]
            d2.put = sinks[0].put
            d1.put = sinks[1].put
            ends.extend([d1.out, d2.out])
            ends_ok.append(d1.out is not None and d2.out is not None and d1.out is not d2.out)
    ends_ok = []
    if cfg.get("order", 0) == 0:
        env.process(net.driver(ch, cfg["N"], items, Front(), scale=cfg.get("scale", 1)))
        mk()
    else:
        mk()
        env.process(net.driver(ch, cfg["N"], items, Front(), scale=cfg.get("scale", 1)))
    saved = random.uniform
    saved_random = random.random
    random.uniform = fake_uniform
    random.random = lambda: fake_uniform(0, 1)
    try:
        err = net.run(10 ** 9)
    finally:
        random.uniform = saved
        random.random = saved_random
    res.digest = (tuple((a.t, a.flow) for a in net.arrs), tuple(calls), tuple((d.arr.i if d.arr else -1, d.t, d.out) for d in net.deps), err)
    tag = "Wire" if ndir == 1 else "Cable"
    res.ev("C10.noraise")
    if err:
        res.bad("C10.noraise", "%s:%s@%s" % (tag, err[0], err[1]), err)
        return res
    seen = set()
    last = {}
    for d in net.deps:
        res.ev("C10.once")
        if d.arr is None:
            res.bad("C10.once", tag + ":foreign-object-delivered", "")
            return res
        if d.arr.i in seen:
            res.bad("C10.once", tag + ":delivered-twice", "packet %d" % d.arr.i)
            return res
        seen.add(d.arr.i)
        if ndir == 2 and d.out != d.arr.flow:
            res.bad("C10.cable", "Cable:delivered-to-the-wrong-end", "packet %d of direction %d came out at end %d" % (d.arr.i, d.arr.flow, d.out))
            return res
        res.ev("C10.fifo")
        if last.get(d.out, -1) > d.arr.seq:
            res.bad("C10.fifo", tag + ":reordered", "direction %d" % d.out)
            return res
        last[d.out] = d.arr.seq
    dirs = [[a for a in net.arrs if a.flow == x] for x in range(ndir)] if ndir == 2 else [sorted(net.arrs, key=lambda a: a.seq)]
    why = explain(dirs, calls, loss)
    res.ev("C10.law", len(net.arrs))
    if loss:
        res.ev("C10.loss", len(net.arrs))
    if ndir == 2:
        res.ev("C10.cable", len(net.arrs))
    if why:
        clause, shape, msg = why
        res.bad(clause, "%s:%s" % (tag, shape), msg)
        return res
    for x in range(ndir):
        prev = None
        for a in dirs[x]:
            if a.dep is None:
                res.nontrivial = True
            elif prev is not None and a.t < prev:
                res.nontrivial = True
            if a.dep is not None:
                prev = a.dep.t
    return res


def explain(dirs, calls, loss):
    """Backtracking attribution of the draw log to packets; returns None if some attribution satisfies the law."""
    import sys
    lim = sys.getrecursionlimit()
    if len(calls) * 2 + 200 > lim:
        sys.setrecursionlimit(len(calls) * 2 + 200)     # the oracle recurses once per draw; restored before returning
    try:
        return _explain(dirs, calls, loss)
    finally:
        sys.setrecursionlimit(lim)


def _explain(dirs, calls, loss):
    nd = len(dirs)
    best = [(-1, ("C10.law", "unexplained", ""))]

    def fail(depth, clause, shape, msg):
        if depth > best[0][0]:
            best[0] = (depth, (clause, shape, msg))

    def rec(k, idx, free, stage):
        if k == len(calls):
            for x in range(nd):
                if stage[x]:
                    fail(k, "C10.law", "loss-draw-without-delay-draw", "")
                    return False
                if idx[x] < len(dirs[x]):
                    a = dirs[x][idx[x]]
                    if a.dep is not None:
                        fail(k, "C10.law", "delivered-without-its-own-delay-draw", "packet %d" % a.i)
                    else:
                        fail(k, "C10.law", "surviving-packet-never-delivered", "packet %d entered at %r, no draw made, not delivered" % (a.i, a.t))
                    return False
            return True
        kind, t, v = calls[k]
        any_ok = False
        for x in range(nd):
            if idx[x] >= len(dirs[x]):
                continue
            a = dirs[x][idx[x]]
            deq = max(a.t, free[x])
            if kind == "U":
                if stage[x] or not loss or deq != t:
                    continue
                if v < loss:
                    if a.dep is not None:
                        fail(k, "C10.loss", "lost-packet-delivered", "packet %d: draw %r < loss rate %r" % (a.i, v, loss))
                        continue
                    i2 = list(idx); i2[x] += 1
                    f2 = list(free); f2[x] = t
                    if rec(k + 1, i2, f2, stage):
                        return True
                else:
                    s2 = list(stage); s2[x] = 1
                    if rec(k + 1, idx, free, s2):
                        return True
            else:
                if loss and not stage[x]:
                    continue
                if deq != t:
                    continue
                want = max(a.t + v, t)
                if a.dep is None:
                    fail(k, "C10.loss" if loss else "C10.law", "packet-discarded-although-it-survived", "packet %d (draw above loss rate / no loss rate)" % a.i)
                    continue
                if a.dep.t != want:
                    fail(k, "C10.law", "delivered-%s" % ("early" if a.dep.t < want else "late"),
                         "packet %d entered %r delay %r previous delivery %r: delivered %r, law says %r" % (a.i, a.t, v, free[x], a.dep.t, want))
                    continue
                i2 = list(idx); i2[x] += 1
                f2 = list(free); f2[x] = want
                s2 = list(stage); s2[x] = 0
                if rec(k + 1, i2, f2, s2):
                    return True
        if not any_ok:
            fail(k, "C10.law", "draw-at-an-instant-no-packet-was-dequeued", "call %d %r at t=%r" % (k, kind, t))
        return False
    if rec(0, [0] * nd, [0] * nd, [0] * nd):
        return None
    return best[0][1]
