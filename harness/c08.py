"""C08 - packets are never lost, duplicated or invented: every element alone, every ordered pair of
single-output elements, fan-out compositions, and generator -> element -> sink pipelines."""
import random

from mc import net as N
from mc import explore
from mc.explore import Result

from onl.sim import Environment
from onl.netdev import (Port, Wire, TokenBucket, TwoRateTokenBucket, SimplePacketSwitch, FairPacketSwitch,
                        Splitter, NSplitter, Hub)
from onl.netdev.red_port import REDPort
from onl.netdev.demux import FlowDemux, FIBDemux
from onl.scheduler import SP, WFQ, VC, DRR, RR, WRR
from onl.packet import DistPacketGenerator, PacketSink

PROPERTY = "C08"
CLAUSES = ["C08.noraise", "C08.same", "C08.once", "C08.account", "C08.fifo", "C08.gen", "C08.sink"]
RULE = ("every arrival workload of <= N packets (gap x flow x size, incl. one unrouted flow where a rule exists) through "
        "every element alone, every ordered chain of two single-output elements, demux fan-outs, and "
        "DistPacketGenerator(s) -> element -> PacketSink with harness-owned inter-arrival/size draws; non-trivial = two "
        "packets were inside one element at the same time or a packet was discarded by rule; distinct = distinct "
        "(workload, per-stage forwarding log)")
ASSUMPTIONS = [
    "discards are attributed by each element's own documented rule: tail/RED drops must equal the element's "
    "packets_dropped delta, wire losses must equal the number of harness loss draws below the rate, demux discards "
    "must be exactly the packets with no route",
    "PacketSink's first inter-arrival sample is measured from time 0.0 (documented behaviour)",
    "DistPacketGenerator: a packet whose own emission instant is < finish must be emitted, one whose predecessor's "
    "instant is >= finish must not; in between either (the statement does not mention finish)",
]
SINGLE = ["port", "portB", "port0", "wire", "tb", "tbp", "tr", "sp", "wfq", "vc", "drr", "rr", "wrr"]
RATE = 8


class Stage:
    """An element under accounting: .inp (has put), outputs wired to taps, discard rule."""

    def __init__(self, name):
        self.name = name
        self.ins = []        # packets handed in (objects, with snapshot)
        self.outs = []       # (output index, object)
        self.counted = lambda: None     # number of counted drops, or None if the element has no drop counter
        self.noroute = lambda pkt: False
        self.lossy = False
        self.copies = False  # outputs >= 1 carry copies (splitters)
        self.repeat = False  # every output carries the same object (hub)


def build_single(kind, env, ctx, nxt):
    """single-input single-output element; `nxt` receives its output."""
    st = Stage(kind)
    if kind in ("port", "portB", "port0"):
        if kind == "port":
            e = Port(env, RATE, None, False, "e_" + kind)
        elif kind == "portB":
            e = Port(env, RATE, 3, True, "e_" + kind)
        else:
            e = Port(env, 0, 2, False, "e_" + kind)
        st.counted = lambda: e.packets_dropped
    elif kind == "red":
        e = REDPort(env, RATE, 2, 1, 0.5, "e_red", 2, weight_factor=0)     # forced drops from 2 waiting packets on
        st.counted = lambda: e.packets_dropped
    elif kind == "wire":
        e = Wire(env, lambda: 1)
    elif kind == "wireL":
        e = Wire(env, lambda: 1, 0.5)
        st.lossy = True
    elif kind == "tb":
        e = TokenBucket(env, RATE, 2)
    elif kind == "tbp":
        e = TokenBucket(env, RATE, 2, peak=16)
    elif kind == "tr":
        e = TwoRateTokenBucket(env, RATE, 2, 16, 4)
    elif kind == "sp":
        e = SP(env, RATE, {0: 1, 1: 2})
    elif kind == "wfq":
        e = WFQ(env, RATE, {0: 1, 1: 2})
    elif kind == "vc":
        e = VC(env, RATE, {0: 1, 1: 2})
    elif kind == "drr":
        e = DRR(env, RATE, {0: 1, 1: 2})
    elif kind == "drrB":
        e = DRR(env, 8000, {0: 1, 1: 2})
    elif kind == "rr":
        e = RR(env, RATE, [0, 1])
    elif kind == "wrr":
        e = WRR(env, RATE, {0: 2, 1: 1})
    else:
        raise ValueError(kind)
    e.out = Tap(ctx, st, 0, nxt)
    st.inp = e
    st.elem = e
    return st


class Tap:
    def __init__(self, ctx, stage, idx, nxt=None):
        self.ctx = ctx; self.stage = stage; self.idx = idx; self.nxt = nxt
        self.element_id = "tap_%s_%d" % (stage.name, idx)

    def put(self, pkt):
        self.ctx.seq += 1
        self.stage.outs.append((self.idx, pkt, self.ctx.env.now, self.ctx.seq, N.snapshot(pkt)))
        if self.nxt is not None:
            self.nxt.put(pkt)


class In:
    """records what is handed to a stage, then hands it on"""

    def __init__(self, ctx, stage):
        self.ctx = ctx; self.stage = stage

    def put(self, pkt):
        self.ctx.seq += 1
        self.stage.ins.append((pkt, self.ctx.env.now, self.ctx.seq, N.snapshot(pkt)))
        self.stage.inp.put(pkt)


class Ctx:
    def __init__(self, env):
        self.env = env
        self.seq = 0
        self.stages = []
        self.draws = []


def build(cfg, env, ctx):
    """returns the entry device (has put) and fills ctx.stages"""
    shape = cfg["shape"]
    if shape == "single":
        st = build_single(cfg["a"], env, ctx, None)
        ctx.stages = [st]
        return In(ctx, st)
    if shape == "chain":
        st2 = build_single(cfg["b"], env, ctx, None)
        in2 = In(ctx, st2)
        st1 = build_single(cfg["a"], env, ctx, in2)
        ctx.stages = [st1, st2]
        return In(ctx, st1)
    if shape == "flowdemux":
        st = Stage("FlowDemux")
        nouts = cfg["nouts"]
        subs = []
        outs = []
        for i in range(nouts):
            if cfg.get("b"):
                s2 = build_single(cfg["b"], env, ctx, None)
                subs.append(s2)
                outs.append(Tap(ctx, st, i, In(ctx, s2)))
            else:
                outs.append(Tap(ctx, st, i))
        dflt = Tap(ctx, st, 99) if cfg.get("default") else None
        d = FlowDemux(outs, dflt)
        st.inp = d
        st.noroute = lambda pkt: pkt.flow_id >= nouts and dflt is None
        st.route = lambda pkt: pkt.flow_id if pkt.flow_id < nouts else 99
        ctx.stages = [st] + subs
        return In(ctx, st)
    if shape == "fibdemux":
        st = Stage("FIBDemux")
        fib = {int(k): v for k, v in cfg["fib"]}
        outs = [Tap(ctx, st, i) for i in range(2)]
        dflt = Tap(ctx, st, 99) if cfg.get("default") else None
        ends = {2: Tap(ctx, st, 50)} if cfg.get("ends") else None
        d = FIBDemux(outs=outs, ends=ends, fib=fib, default_out=dflt)
        st.inp = d

        def route(pkt):
            f = pkt.flow_id
            if ends and f in ends:
                return 50
            if f in fib and 0 <= fib[f] < 2:
                return fib[f]
            return 99 if dflt is not None else None
        st.route = route
        st.noroute = lambda pkt: route(pkt) is None
        ctx.stages = [st]
        return In(ctx, st)
    if shape == "sswitch":
        st = Stage("SimplePacketSwitch")
        sw = SimplePacketSwitch(env, 2, RATE, 2, "sw")
        for i, p in enumerate(sw.ports):
            p.out = Tap(ctx, st, i)
        st.inp = sw
        st.counted = lambda: sum(p.packets_dropped for p in sw.ports)
        st.noroute = lambda pkt: pkt.flow_id >= 2
        st.route = lambda pkt: pkt.flow_id
        ctx.stages = [st]
        return In(ctx, st)
    if shape == "fswitch":
        st = Stage("FairPacketSwitch(%s)" % cfg["server"])
        table = {0: 1, 1: 2}
        if cfg.get("classmap"):
            sw = FairPacketSwitch(env, 2, RATE, 3, {0: 2}, cfg["server"], "fsw", flow2class=lambda f: 0)
        else:
            sw = FairPacketSwitch(env, 2, RATE, 3, table, cfg["server"], "fsw")
        fib = {int(k): v for k, v in cfg["fib"]}
        sw.demux.fib = fib
        for i, p in enumerate(sw.ports):
            p.out = Tap(ctx, st, i)
        st.inp = sw
        st.counted = lambda: sum(p.packets_dropped for p in sw.egress_ports)
        st.noroute = lambda pkt: pkt.flow_id not in fib
        st.route = lambda pkt: fib.get(pkt.flow_id)
        ctx.stages = [st]
        return In(ctx, st)
    if shape == "splitter":
        st = Stage("Splitter" if cfg["n"] == 2 else "NSplitter")
        st.copies = True
        conn = cfg["conn"]
        if cfg["n"] == 2:
            sp = Splitter()
            if conn[0]:
                sp.out1 = Tap(ctx, st, 0)
            if conn[1]:
                sp.out2 = Tap(ctx, st, 1)
        else:
            sp = NSplitter(cfg["n"])
            for i in range(cfg["n"]):
                if conn[i]:
                    sp.outs[i] = Tap(ctx, st, i)
        st.conn = conn
        st.inp = sp
        ctx.stages = [st]
        return In(ctx, st)
    if shape == "hub":
        st = Stage("Hub")
        st.repeat = True
        n = cfg["n"]

        class Ep:
            def __init__(self, i):
                self.element_id = "ep%d" % i
                self.out = None
                self.tap = Tap(ctx, st, i)

            def put(self, pkt):
                self.tap.put(pkt)
        eps = [Ep(i) for i in range(n)]
        hub = Hub(env, eps, [None] * n)
        st.eps = eps
        st.n = n

        class HubIn:
            def put(self, pkt):
                hub.put(pkt)
        st.inp = HubIn()
        ctx.stages = [st]
        return In(ctx, st)
    raise ValueError(shape)


def plan(tier, seed):
    quick = tier == "quick"
    n1 = 3 if quick else 4
    cfgs = []
    for a in SINGLE + ["red", "wireL"]:
        cfgs.append(dict(shape="single", a=a, N=n1, gaps="G5", flows=[0, 1], sizes=[1, 2]))
    for a in SINGLE:
        for b in SINGLE:
            cfgs.append(dict(shape="chain", a=a, b=b, N=n1, gaps=["S", 1, 2], flows=[0, 1], sizes=[1, 2] if not quick else [2]))
    cfgs.append(dict(shape="chain", a="wireL", b="wireL", N=n1, gaps=["S", 1], flows=[0, 1], sizes=[1]))
    # two deficit schedulers in a row, packets larger than a quantum (both park head-of-line packets)
    cfgs.append(dict(shape="chain", a="drrB", b="drrB", N=n1 + 1, gaps=["S", 1], flows=[0, 1], sizes=[2000, 3000]))
    cfgs.append(dict(shape="chain", a="wireL", b="portB", N=n1, gaps=["S", 1], flows=[0, 1], sizes=[2]))
    for nouts in (0, 1, 2):
        for dflt in (0, 1):
            cfgs.append(dict(shape="flowdemux", nouts=nouts, default=dflt, N=n1, gaps=["S", 1], flows=[0, 1, 2], sizes=[1]))
    for b in ("port", "portB", "sp", "wire"):
        cfgs.append(dict(shape="flowdemux", nouts=2, default=0, b=b, N=n1, gaps=["S", 1, 2], flows=[0, 1, 2], sizes=[2]))
    for fib in ([[0, 0], [1, 1]], [[0, 1], [1, 1]], [[0, 0], [1, 7]]):
        for dflt in (0, 1):
            cfgs.append(dict(shape="fibdemux", fib=fib, default=dflt, ends=0, N=n1, gaps=["S", 1], flows=[0, 1, 2], sizes=[1]))
    cfgs.append(dict(shape="fibdemux", fib=[[0, 0], [1, 1]], default=0, ends=1, N=n1, gaps=["S", 1], flows=[0, 1, 2], sizes=[1]))
    cfgs.append(dict(shape="sswitch", N=n1 + 1, gaps=["S", 1, 2], flows=[0, 1, 2], sizes=[1, 2]))
    for server in ("SP", "WFQ", "DRR", "VirtualClock"):
        for fib in ([[0, 0], [1, 0]], [[0, 0], [1, 1]]):
            cfgs.append(dict(shape="fswitch", server=server, fib=fib, N=n1 + 1, gaps=["S", 1, 2], flows=[0, 1, 2], sizes=[1, 2]))
        # all flows of a port share one class (flows 5 and 6 exist only through the class map)
        if server != "SP":
            cfgs.append(dict(shape="fswitch", server=server, fib=[[5, 0], [6, 0]], N=n1 + 1, gaps=["S", 1], flows=[5, 6, 2], sizes=[1, 2], classmap=1))
    for conn in ([1, 1], [1, 0], [0, 1], [0, 0]):
        cfgs.append(dict(shape="splitter", n=2, conn=conn, N=n1, gaps=["S", 1], flows=[0, 1], sizes=[1]))
    for conn in ([1, 1, 1], [0, 1, 1], [1, 0, 1], [0, 0, 0]):
        cfgs.append(dict(shape="splitter", n=3, conn=conn, N=n1, gaps=["S", 1], flows=[0, 1], sizes=[1]))
    for n in (2, 3, 4):
        cfgs.append(dict(shape="hub", n=n, N=n1, gaps=["S", 1], flows=list(range(n)), sizes=[1]))
    for probs in ([0.5, 0.5], [0.2, 0.3], [2, 1], [1, 0], [0.25, 0.25, 0.25]):
        cfgs.append(dict(shape="randdemux", probs=probs, N=3))
    # generator -> element -> sink
    for a in ("port", "portB", "wire", "tb", "sp", "wfq", "drr", "vc"):
        for mode in ((1, 1, 1), (0, 0, 1), (1, 1, 0)):
            if quick and mode != (1, 1, 1) and a not in ("port", "wfq"):
                continue
            cfgs.append(dict(shape="gen", a=a, flowidx=mode[0], absolute=mode[1], waits=mode[2], N=n1, delay0=[0, 1], finish=3))
    # every configuration once more with long fixed workloads (state that only breaks after hundreds of packets)
    nlong = explore.add_long(cfgs, 300 if quick else 1000, burst=1100)
    ndebug = explore.add_debug_variants(cfgs)      # the same with every element constructed with debug=True
    return {"cfgs": cfgs, "budget": None,
            "bound": ("%d long fixed workloads (periodic arrival patterns); %d configurations repeated with debug=True; " % (nlong, ndebug)) + ("N<=%d packets per workload; %d single elements, %d ordered chains, demux/switch/splitter/hub configurations, "
                     "generator pipelines with <=%d draws per generator" % (n1, len(SINGLE) + 2, len(SINGLE) ** 2 + 2, n1))}


def exec_randdemux(ch, cfg):
    """RandomDemux: every packet leaves through exactly one output, one that has a positive weight; the weights are
    relative (they need not sum to 1).  The draw is owned by the harness whichever seam the module uses."""
    import onl.netdev.demux as dm
    res = Result()
    probs = cfg["probs"]
    log = []

    class Rec:
        def __init__(self, i):
            self.i = i

        def put(self, p):
            log.append((self.i, p))
    outs = [Rec(i) for i in range(len(probs))]
    draws = []

    def fake_choices(population, weights=None, cum_weights=None, k=1):
        idx = [i for i, w in enumerate(weights) if w > 0]
        c = idx[ch.choose(len(idx), lambda c: "draw selects output %d" % idx[c])]
        draws.append(c)
        return [population[c]]

    def fake_random():
        v = [0.05, 0.45, 0.95][ch.choose(3, lambda c: "uniform draw %s" % [0.05, 0.45, 0.95][c])]
        draws.append(v)
        return v
    saved = {}
    for name, fn in (("choices", fake_choices), ("random", fake_random), ("uniform", lambda a, b: a + (b - a) * fake_random())):
        if hasattr(dm, name) and callable(getattr(dm, name)):
            saved[name] = getattr(dm, name)
            setattr(dm, name, fn)
    saved_mod = (random.random, random.choices)
    random.random, random.choices = fake_random, fake_choices
    res.ev("C08.noraise"); res.ev("C08.once", cfg["N"])
    pkts = []
    try:
        d = dm.RandomDemux(outs, probs)
        for i in range(cfg["N"]):
            from onl.packet import Packet
            p = Packet(0, 1, i, flow_id=i % 2)
            pkts.append(p)
            d.put(p)
    except BaseException as e:  # noqa
        from mc.net import _where
        res.bad("C08.noraise", "RandomDemux:%s@%s" % (type(e).__name__, _where(e)), repr(e)[:100])
    finally:
        for name, fn in saved.items():
            setattr(dm, name, fn)
        random.random, random.choices = saved_mod
    res.digest = (tuple(probs), tuple(draws), tuple(i for i, p in log))
    res.nontrivial = True
    if not res.violations:
        if not draws:
            res.bad("C08.account", "RandomDemux:draw-not-owned-by-the-harness", "no draw reached the harness (another random seam?)")
        elif [p for i, p in log] != pkts:
            res.bad("C08.once", "RandomDemux:%s" % ("packet-lost" if len(log) < len(pkts) else "packet-duplicated-or-reordered"), "weights %r draws %r: %d packets in, outputs %r" % (probs, draws, len(pkts), [i for i, p in log]))
        elif any(probs[i] <= 0 for i, p in log):
            res.bad("C08.account", "RandomDemux:output-with-zero-weight-used", "weights %r outputs %r" % (probs, [i for i, p in log]))
    return res


def execute(ch, cfg):
    if cfg["shape"] == "randdemux":
        return exec_randdemux(ch, cfg)
    if cfg["shape"] == "gen":
        return exec_gen(ch, cfg)
    res = Result()
    env = Environment()
    ctx = Ctx(env)
    lost_draws = []

    def fake_uniform(a, b):
        v = [0.75, 0.25][ch.choose(2, lambda c: "loss draw %s" % [0.75, 0.25][c])]
        lost_draws.append(v)
        return v
    net = N.Net(env)
    entry = build(cfg, env, ctx)
    gaps = N.G5 if cfg["gaps"] == "G5" else cfg["gaps"]
    items = N.menu(gaps, cfg["flows"], cfg["sizes"])
    srcname = (lambda f: "ep%d" % f) if cfg["shape"] == "hub" else (lambda f: "src")

    class Front:
        def put(self, pkt):
            pkt.src = srcname(pkt.flow_id)
            pkt.payload = {"payload": pkt.packet_id, "fmt": "{} {0} %s"}      # opaque to every element
            entry.put(pkt)
    env.process(net.driver(ch, cfg["N"], items, Front(), long_gap=40))
    saved = random.uniform
    saved_random = random.random
    random.uniform = fake_uniform
    random.random = lambda: fake_uniform(0, 1)
    try:
        err = net.run(10 ** 9)
    finally:
        random.uniform = saved
        random.random = saved_random
    name = "+".join(s.name for s in ctx.stages[:2])
    res.digest = (err, tuple(tuple((o[0], o[4][0], o[2]) for o in s.outs) for s in ctx.stages), tuple(lost_draws),
                  tuple((a.t, a.flow, a.size) for a in net.arrs))
    res.ev("C08.noraise")
    if err:
        res.bad("C08.noraise", "%s:%s@%s" % (name, err[0], err[1]), err)
        return res
    lossy_in = lossy_out = 0
    for st in ctx.stages:
        check_stage(st, res, cfg)
        if res.violations:
            return res
        if st.lossy:
            lossy_in += len(st.ins)
            lossy_out += len(st.outs)
        if len(st.ins) != len(st.outs):
            res.nontrivial = True
        for k in range(1, len(st.ins)):
            # overlap: packet k entered before packet k-1 left
            prev_out = [o for o in st.outs if o[1] is st.ins[k - 1][0]]
            if prev_out and st.ins[k][2] < prev_out[0][3]:
                res.nontrivial = True
    if any(st.lossy for st in ctx.stages):
        res.ev("C08.account")
        want = sum(1 for v in lost_draws if v < 0.5)
        if lossy_in - lossy_out != want:
            res.bad("C08.account", "Wire:losses-differ-from-loss-draws", "%d packets vanished on lossy wires, %d draws below the loss rate" % (lossy_in - lossy_out, want))
    return res


def check_stage(st, res, cfg):
    ins = st.ins
    in_ids = {id(p[0]): k for k, p in enumerate(ins)}
    tag = st.name
    if st.copies:
        # splitter: original object to output 0, distinct equal copies elsewhere
        for k, (pkt, t, seq, snap) in enumerate(ins):
            got = [o for o in st.outs if o[4] == snap and o[2] == t]
        per_out = {}
        for o in st.outs:
            per_out.setdefault(o[0], []).append(o)
        for i, c in enumerate(st.conn):
            lst = per_out.get(i, [])
            res.ev("C08.once")
            if not c:
                continue
            if len(lst) != len(ins):
                res.bad("C08.once", "%s:output-%s-count" % (tag, "first" if i == 0 else "copy"), "output %d carried %d packets for %d handed in" % (i, len(lst), len(ins)))
                return
            for k, o in enumerate(lst):
                res.ev("C08.same")
                if o[4] != ins[k][3]:
                    res.bad("C08.same", "%s:fields-changed" % tag, "output %d packet %d: %r vs %r" % (i, k, o[4], ins[k][3]))
                    return
                if i == 0 and o[1] is not ins[k][0]:
                    res.bad("C08.same", "%s:first-output-is-a-copy" % tag, "packet %d" % k)
                    return
                if i > 0 and o[1] is ins[k][0]:
                    res.bad("C08.same", "%s:copy-output-carries-the-original" % tag, "output %d packet %d" % (i, k))
                    return
        objs = [id(o[1]) for o in st.outs]
        if len(set(objs)) != len(objs):
            res.bad("C08.same", "%s:two-outputs-share-one-object" % tag, "")
        return
    if st.repeat:
        for k, (pkt, t, seq, snap) in enumerate(ins):
            got = [o for o in st.outs if o[1] is pkt]
            want = [i for i in range(st.n) if "ep%d" % i != pkt.src]
            res.ev("C08.once")
            if sorted(o[0] for o in got) != want:
                res.bad("C08.once", "Hub:wrong-recipient-set", "packet from %s reached endpoints %s, expected %s" % (pkt.src, sorted(o[0] for o in got), want))
                return
            res.ev("C08.same")
            if any(o[4] != snap for o in got):
                res.bad("C08.same", "Hub:fields-changed", "")
                return
        if any(id(o[1]) not in in_ids for o in st.outs):
            res.bad("C08.same", "Hub:foreign-object-at-output", "")
        return
    seen = set()
    last = {}
    for (idx, pkt, t, seq, snap) in st.outs:
        res.ev("C08.same")
        k = in_ids.get(id(pkt))
        if k is None or ins[k][0] is not pkt:
            res.bad("C08.same", "%s:object-at-output-was-never-handed-in" % tag, "%r" % (snap,))
            return
        if snap != ins[k][3]:
            res.bad("C08.same", "%s:identifying-fields-changed" % tag, "%r -> %r" % (ins[k][3], snap))
            return
        res.ev("C08.once")
        if k in seen:
            res.bad("C08.once", "%s:forwarded-twice" % tag, "packet %r" % (snap,))
            return
        seen.add(k)
        if st.noroute(pkt):
            res.bad("C08.once", "%s:routeless-packet-forwarded" % tag, "flow %s" % pkt.flow_id)
            return
        if hasattr(st, "route") and st.route(pkt) != idx:
            res.bad("C08.once", "%s:wrong-output" % tag, "flow %s left on output %s, rule says %s" % (pkt.flow_id, idx, st.route(pkt)))
            return
        res.ev("C08.fifo")
        f = pkt.flow_id
        if last.get(f, -1) > k:
            res.bad("C08.fifo", "%s:flow-reordered" % tag, "flow %s" % f)
            return
        last[f] = k
    # accounting at exhaustion
    res.ev("C08.account")
    missing = [p for k, p in enumerate(ins) if k not in seen]
    routeless = [p for p in missing if st.noroute(p[0])]
    rest = len(missing) - len(routeless)
    counted = st.counted()
    if st.lossy:
        return
    if counted is None:
        if rest:
            res.bad("C08.account", "%s:packet-vanished" % tag, "%d handed in, %d forwarded, %d routeless" % (len(ins), len(seen), len(routeless)))
    elif rest != counted:
        res.bad("C08.account", "%s:%s" % (tag, "packet-vanished-uncounted" if rest > counted else "drop-counted-but-forwarded"),
                "%d handed in, %d forwarded, %d routeless, %d counted drops" % (len(ins), len(seen), len(routeless), counted))


# ---- generator -> element -> sink ------------------------------------------------------------
def exec_gen(ch, cfg):
    res = Result()
    env = Environment()
    ctx = Ctx(env)
    net = N.Net(env)
    sink = PacketSink(env, rec_arrivals=True, absolute_arrivals=bool(cfg["absolute"]), rec_waits=bool(cfg["waits"]),
                      rec_flow_ids=bool(cfg["flowidx"]))
    delivered = []

    class SinkTap:
        def put(self, pkt):
            delivered.append((pkt, env.now, N.snapshot(pkt)))
            sink.put(pkt)
    st = build_single(cfg["a"], env, ctx, SinkTap())
    entry = In(ctx, st)
    gens = []
    nmax = cfg["N"]
    for g in range(2):
        rec = {"gaps": [], "sizes": [], "n": 0}
        d0 = cfg["delay0"][ch.choose(len(cfg["delay0"]), lambda c, g=g: "generator %d initial_delay %s" % (g, cfg["delay0"][c]), free=True)]

        def arrival(rec=rec, g=g):
            if len(rec["gaps"]) >= nmax:
                v = 1000
            else:
                v = [0, 1, 2][ch.choose(3, lambda c: "generator %d inter-arrival %d" % (g, c), free=True)]
            rec["gaps"].append(v)
            return v

        def size(rec=rec, g=g):
            v = [1, 2][ch.choose(2, lambda c: "generator %d size %d" % (g, c + 1), free=True)]
            rec["sizes"].append(v)
            return v
        pg = DistPacketGenerator(env, "gen%d" % g, arrival, size, initial_delay=d0, finish=cfg["finish"], flow_id=g)
        pg.out = entry
        rec["pg"] = pg
        rec["d0"] = d0
        gens.append(rec)
    err = net.run(900)
    res.digest = (err, tuple((s[2], s[1]) for s in delivered), tuple((r["d0"], tuple(r["gaps"]), tuple(r["sizes"])) for r in gens))
    res.ev("C08.noraise")
    if err:
        res.bad("C08.noraise", "gen+%s:%s@%s" % (cfg["a"], err[0], err[1]), err)
        return res
    # generator law
    for g, rec in enumerate(gens):
        mine = [p for p in st.ins if p[0].flow_id == g]
        t = rec["d0"]
        exp = []
        for k, gap in enumerate(rec["gaps"]):
            prev = t
            t = t + gap
            if t >= 900:
                break
            exp.append((k + 1, t, prev))
        for k, (pkt, tin, seq, snap) in enumerate(mine):
            res.ev("C08.gen")
            if k >= len(exp):
                res.bad("C08.gen", "DistPacketGenerator:packet-without-a-draw", "generator %d emitted %d packets for %d draws" % (g, len(mine), len(exp)))
                return res
            n, when, prev = exp[k]
            want = (n, g, "gen%d" % g, rec["sizes"][k] if k < len(rec["sizes"]) else None, when, None)
            if snap != want or tin != when:
                res.bad("C08.gen", "DistPacketGenerator:packet-n-differs-from-the-law", "generator %d packet %d: got %r at %r, law %r at %r" % (g, n, snap, tin, want, when))
                return res
            if prev >= cfg["finish"]:
                res.bad("C08.gen", "DistPacketGenerator:emitted-after-finish", "generator %d packet %d at %r, previous instant %r, finish %r" % (g, n, when, prev, cfg["finish"]))
                return res
        for (n, when, prev) in exp[len(mine):]:
            if when < cfg["finish"]:
                res.bad("C08.gen", "DistPacketGenerator:stopped-early", "generator %d never emitted packet %d due at %r < finish" % (g, n, when))
                return res
    check_stage(st, res, cfg)
    if res.violations:
        return res
    if len(st.ins) >= 2:
        res.nontrivial = True
    # sink bookkeeping
    idx = (lambda p: p.flow_id) if cfg["flowidx"] else (lambda p: p.src)
    keys = set(idx(p[0]) for p in delivered)
    for key in keys:
        mine = [p for p in delivered if idx(p[0]) == key]
        res.ev("C08.sink")
        if sink.packets_received[key] != len(mine) or sink.bytes_received[key] != sum(p[0].size for p in mine):
            res.bad("C08.sink", "PacketSink:count-or-bytes", "index %r: %r packets %r bytes, delivered %d/%d" % (key, sink.packets_received[key], sink.bytes_received[key], len(mine), sum(p[0].size for p in mine)))
            return res
        times = [p[1] for p in mine]
        want_arr = times if cfg["absolute"] else [t - (times[i - 1] if i else 0.0) for i, t in enumerate(times)]
        if list(sink.arrivals[key]) != want_arr:
            res.bad("C08.sink", "PacketSink:arrivals-%s" % ("absolute" if cfg["absolute"] else "inter-arrival"), "index %r: %r want %r" % (key, list(sink.arrivals[key]), want_arr))
            return res
        want_w = [p[1] - p[0].time for p in mine] if cfg["waits"] else []
        if list(sink.waits[key]) != want_w:
            res.bad("C08.sink", "PacketSink:waits", "index %r: %r want %r" % (key, list(sink.waits[key]), want_w))
            return res
    extra = [k for k in list(sink.packets_received) if k not in keys and sink.packets_received[k]]
    if extra:
        res.bad("C08.sink", "PacketSink:counts-for-an-index-nothing-was-delivered-to", "%r" % extra)
    return res
