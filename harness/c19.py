"""C19 - a Timer fires exactly at its expiry, and stop/restart always take effect."""
from mc.explore import Result
from mc.kclient import INF

from onl.sim import Environment
from onl.utils import Timer

PROPERTY = "C19"
CLAUSES = ["C19.noraise", "C19.fire", "C19.stop", "C19.restart", "C19.args", "C19.once"]
RULE = ("one Timer (timeout 2|3, one-shot|auto-restart, args None|[7]|7|'ab'|0|[0,'']) created at t=0; at every integer instant 1..H "
        "an outside process may act before and after the timer's own event of that instant, and the callback may act at "
        "every firing; actions {nothing, stop(), restart(1), restart(2)} with <= B non-nothing actions; non-trivial = an "
        "action was taken at an expiry instant or from the callback; distinct = distinct (configuration, actions, firing log)")
ASSUMPTIONS = [
    "after stop() the timer never fires again, also not after a later restart(); left open by the statement and treated "
    "leniently (only 'never raises' applies afterwards): restart() of a one-shot timer that has already expired; the period of an auto-restart timer after restart(tau) may be "
    "tau or the original timeout (the firing at r+tau itself is exact)",
]
ACTS = ["nothing", "stop", ("restart", 1), ("restart", 2)]
ARGS = [None, [7], 7, "ab", 0, [0, ""]]
WANT = [(), (7,), (7,), ("ab",), (0,), (0, "")]


def plan(tier, seed):
    quick = tier == "quick"
    cfgs = []
    for to in (2, 3):
        for auto in (0, 1):
            for ai in range(len(ARGS)):
                if quick and ai in (1, 3) and to == 3:
                    continue
                cfgs.append(dict(timeout=to, auto=auto, args=ai, H=8 if quick else 10))
    # a clock far above 1e9 timeouts (relative comparisons of instants break there); argument lists the caller re-uses
    for auto in (0, 1):
        cfgs.append(dict(timeout=2, auto=auto, args=2, H=6 if quick else 8, base=2 ** 40))
        cfgs.append(dict(timeout=2, auto=auto, args=1, H=6 if quick else 8, mutate=1))
        cfgs.append(dict(timeout=3, auto=auto, args=5, H=6 if quick else 8, mutate=1))
    # keyword-only arguments; a callback object that is falsy (defines __len__); times that are not binary fractions
    for auto in (0, 1):
        cfgs.append(dict(timeout=2, auto=auto, args=0, H=6 if quick else 8, kwargs=1))
        cfgs.append(dict(timeout=2, auto=auto, args=2, H=6 if quick else 8, falsy_cb=1))
        cfgs.append(dict(timeout=1, auto=auto, args=2, H=6 if quick else 8, base=0.7, unit=0.1))
        cfgs.append(dict(timeout=3, auto=auto, args=0, H=6 if quick else 8, base=0.3, unit=0.1))
    # one auto-restart timer left alone for 1200 periods (a single long execution)
    cfgs.append(dict(endurance=1200))
    return {"cfgs": cfgs, "budget": 3 if quick else 4, "bound": "one timer running 1200 periods; H=%d instants, <=%d actions" % (8 if quick else 10, 3 if quick else 4)}


def endurance(cfg):
    res = Result()
    n = cfg["endurance"]
    env = Environment()
    fired = []
    t = Timer(env, 1, lambda *a: fired.append((env.now, a)), auto_restart=True, args=[5])
    res.ev("C19.noraise"); res.ev("C19.fire", n)
    res.nontrivial = True
    try:
        env.run(until=n + 0.5)
        t.stop()
        env.run(until=n + 5)
    except BaseException as e:  # noqa
        from mc.net import _where
        res.bad("C19.noraise", "Timer(auto-restart,long-run):run-raised-%s@%s" % (type(e).__name__, _where(e)), "after %d firings: %r" % (len(fired), e))
        return res
    res.digest = (len(fired), fired[-1] if fired else None)
    if fired != [(k, (5,)) for k in range(1, n + 1)]:
        k = next((i for i, f in enumerate(fired) if f != (i + 1, (5,))), len(fired))
        res.bad("C19.fire", "Timer(auto-restart,long-run):periodic-firing-wrong", "%d firings, first deviation at index %d: %r" % (len(fired), k, fired[k:k + 2]))
    return res


def execute(ch, cfg):
    if cfg.get("endurance"):
        return endurance(cfg)
    res = Result()
    base = cfg.get("base", 0)
    unit = cfg.get("unit", 1)
    env = Environment(base)
    H = cfg["H"]
    fired = []          # (time, args tuple)
    acts = []           # (time, slot, action)
    holder = {}
    err = [None]
    # reference: set of (pending instant or None, stopped, period, lenient)
    ref = {"states": {(base + cfg["timeout"] * unit, False, cfg["timeout"] * unit, False)}, "in_cb": False}
    tag = "Timer(%s,args=%s)" % ("auto-restart" if cfg["auto"] else "one-shot", ["None", "list", "scalar", "str", "zero", "list-of-falsy"][cfg["args"]])
    bad = []

    def apply(action, now, slot):
        acts.append((now, slot, action))
        t = holder["t"]
        try:
            if action == "stop":
                t.stop()
            else:
                t.restart(action[1] * unit)
        except BaseException as e:  # noqa
            bad.append(("C19.noraise", "%s:%s-raised-%s-%s" % (tag, action if action == "stop" else "restart", type(e).__name__, slot), "t=%r: %r" % (now, e)))
            raise
        ns = set()
        for (pending, stopped, period, lenient) in ref["states"]:
            if action == "stop":
                ns.add((None, True, period, lenient))
            else:
                tau = action[1] * unit
                if stopped:
                    ns.add((None, True, period, lenient))           # "after stop() it never fires again" - restart does not revive it
                elif pending is None and slot != "callback":
                    ns.add((None, stopped, period, True))           # expired one-shot timer: unspecified, anything goes from here on
                else:
                    ns.add((now + tau, False, tau, lenient))
                    ns.add((now + tau, False, period, lenient))
        ref["states"] = ns

    def callback(*a, **kw):
        now = env.now
        fired.append((now, a, kw))
        if len(fired) > 4 * H:
            if not bad:
                bad.append(("C19.once", "%s:callback-fires-without-end" % tag, "%d firings by t=%r; actions %r" % (len(fired), now, acts)))
            raise RuntimeError("harness: runaway timer")
        # reference: a firing must be expected by some state
        ns = set()
        for (pending, stopped, period, lenient) in ref["states"]:
            if lenient:
                ns.add((pending, stopped, period, lenient))
            elif pending == now and not stopped:
                ns.add(((now + period) if cfg["auto"] else None, False, period, False))
        if not ns:
            st = sorted(ref["states"], key=str)
            why = "C19.stop" if all(s[1] for s in st) else ("C19.restart" if any(x[2] != "nothing" and x[2] != "stop" for x in acts) else "C19.fire")
            bad.append((why, "%s:fired-%s" % (tag, "after-stop" if why == "C19.stop" else ("at-an-instant-no-expiry-is-due" if why == "C19.fire" else "at-a-cancelled-or-wrong-expiry-after-restart")),
                        "fired at %r; reference %r; actions %r" % (now, st, acts)))
            ref["states"] = {(None, False, cfg["timeout"], True)}
        else:
            ref["states"] = ns
        c = ch.choose(len(ACTS), lambda c: "t=%r callback: %s" % (now, ACTS[c],))
        if c:
            res.nontrivial = True
            apply(ACTS[c], now, "callback")

    def actor(t):
        yield env.timeout(t * unit)
        c = ch.choose(len(ACTS), lambda c: "t=%d before the timer's event: %s" % (t, ACTS[c],))
        if c:
            if any((not s[3]) and s[0] == env.now for s in ref["states"]):
                res.nontrivial = True
            apply(ACTS[c], env.now, "before")
        yield env.timeout(0)
        c = ch.choose(len(ACTS), lambda c: "t=%d after the timer's event: %s" % (t, ACTS[c],))
        if c:
            if fired and fired[-1][0] == env.now:
                res.nontrivial = True
            apply(ACTS[c], env.now, "after")
    for t in range(1, H + 1):
        env.process(actor(t))
    given = ARGS[cfg["args"]]
    if cfg.get("mutate"):
        given = list(given)
    cb_obj = callback
    if cfg.get("falsy_cb"):
        class Hook:
            """a callable object that is falsy (an empty signal / recorder defining __len__)"""

            def __len__(self):
                return 0

            def __call__(self, *a, **kw):
                return callback(*a, **kw)
        cb_obj = Hook()
    kwargs = {"k": 5, "name": ""} if cfg.get("kwargs") else None
    holder["t"] = Timer(env, cfg["timeout"] * unit, cb_obj, auto_restart=bool(cfg["auto"]), args=given, **({"kwargs": kwargs} if kwargs else {}))
    if cfg.get("mutate"):
        # the caller goes on using its list for something else
        given.clear()
        given.extend(["other", "things", 3])
    missed = None
    try:
        nsteps = 0
        while env.peek() < INF and env.peek() <= base + (H + 3) * unit:
            nsteps += 1
            if nsteps > 400:
                bad.append(("C19.once", "%s:timer-keeps-the-simulation-at-one-instant" % tag, "more than 400 kernel steps; t=%r actions %r fired %r" % (env.now, acts, fired[:5])))
                break
            nxt = env.peek()
            if nxt > env.now:
                # the clock is about to advance: every firing due now must have happened
                missed = missed or check_due(ref, env.now, fired)
            env.step()
    except BaseException as e:  # noqa
        if not bad:
            from mc.net import _where
            bad.append(("C19.noraise", "%s:run-raised-%s@%s" % (tag, type(e).__name__, _where(e)), "actions %r fired %r: %r" % (acts, fired, e)))
    res.digest = (tuple(acts), tuple((f[0], f[1]) for f in fired))
    for c in CLAUSES:
        res.ev(c, 1 + len(fired))
    if bad:
        res.bad(*bad[0])
        return res
    if missed:
        res.bad(missed[0], "%s:%s" % (tag, missed[1]), missed[2] + " actions %r fired %r" % (acts, fired))
        return res
    for (t, a, kw) in fired:
        if a != WANT[cfg["args"]] or kw != ({"k": 5, "name": ""} if cfg.get("kwargs") else {}):
            res.bad("C19.args", "%s:callback-called-with-wrong-arguments" % tag, "got %r %r, expected %r" % (a, kw, WANT[cfg["args"]]))
            return res
    times = [f[0] for f in fired]
    if len(set(times)) != len(times) and not any(s[3] for s in ref["states"]):
        res.bad("C19.once", "%s:fired-twice-for-one-expiry" % tag, "fired %r actions %r" % (fired, acts))
    return res


def check_due(ref, now, fired):
    """at a settled point: states that still expect a firing at `now` are dead"""
    alive = set()
    for s in ref["states"]:
        if s[3] or s[0] is None or s[0] > now or s[1]:
            alive.add(s)
    if not alive:
        st = sorted(ref["states"], key=str)
        ref["states"] = {(None, False, 0, True)}
        return ("C19.fire" if True else "", "expiry-without-firing", "no firing at t=%r although every admissible state expects one: %r;" % (now, st))
    ref["states"] = alive
    return None
