"""Stateless choice-tree explorer (bounded exhaustive exploration of the real code).

A harness is `execute(ch, cfg) -> Result`.  It builds fresh real objects, drives them and
calls `ch.choose(n, label)` at every nondeterministic point.  The explorer enumerates every
complete choice sequence exactly once (textbook stateless DFS: run with a prefix, answer 0
afterwards, then branch on every later point), optionally under a deviation budget (number
of non-zero answers at budgeted points).  State is rebuilt by replay; a replay that meets a
choice point whose arity differs from what the prefix assumed is a hard error.
"""
import os
import sys
import time
import multiprocessing as mp


class ReplayDivergence(Exception):
    pass


class Chooser:
    __slots__ = ("prefix", "choices", "arity", "budget", "nz", "labels", "record")

    def __init__(self, prefix=(), budget=None, record=False):
        self.prefix = list(prefix)
        self.choices = []
        self.arity = []
        self.budget = budget
        self.nz = 0
        self.record = record
        self.labels = [] if record else None

    def choose(self, n, label=None, free=False):
        """Return a choice in range(n). `free` points do not count against the deviation budget."""
        i = len(self.choices)
        if n <= 0:
            raise ValueError("choose(%r)" % (n,))
        if i < len(self.prefix):
            c = self.prefix[i]
            if c >= n:
                raise ReplayDivergence("point %d: prefix says %d but arity is %d (%r)" % (i, c, n, label))
            a = n
        else:
            c = 0
            a = n
            if self.budget is not None and not free and self.nz >= self.budget:
                a = 1
        if c and not free:
            self.nz += 1
        self.choices.append(c)
        self.arity.append(a)
        if self.record:
            self.labels.append(label if not callable(label) else label(c))
        return c

    def note(self, text):
        if self.record:
            self.labels.append(("note", text))


class Result:
    __slots__ = ("digest", "nontrivial", "violations", "clauses", "weight")

    def __init__(self):
        self.weight = 0           # long fixed workloads are the last choice as witnesses
        self.digest = None
        self.nontrivial = False
        self.violations = []      # (clause, shape, message)
        self.clauses = {}         # clause -> number of evaluations in this execution

    def ev(self, clause, n=1):
        self.clauses[clause] = self.clauses.get(clause, 0) + n

    def bad(self, clause, shape, msg=""):
        self.violations.append((clause, shape, str(msg)[:600]))


class Periodic:
    """Chooser for ONE long deterministic execution (configurations with a "long" key): workload points (free=True, where
    answer 0 means "stop") get 1 + pattern[i mod len] mod (n-1), environment points get pattern[i mod len] mod n.  The
    execution has no branching left, so it is the whole (singleton) space of its configuration."""
    record = False
    labels = None

    def __init__(self, pattern):
        self.pattern = list(pattern)
        self.i = 0
        self.choices = []
        self.arity = []

    def choose(self, n, label=None, free=False):
        v = self.pattern[self.i % len(self.pattern)]
        self.i += 1
        if free:
            return 1 + v % (n - 1) if n > 1 else 0
        return v % n

    def note(self, text):
        pass


def with_long(execute):
    """configurations carrying long={"pattern": [...], "set": {cfg overrides}} are run once with a Periodic chooser"""
    def run(ch, cfg):
        lg = cfg.get("long")
        if lg:
            c2 = dict(cfg)
            c2.pop("long")
            c2.update(lg.get("set", {}))
            res = execute(Periodic(lg["pattern"]), c2)
            res.weight = 1
            return res
        return execute(ch, cfg)
    return run


_DEBUG_CLASSES = None


def _debug_classes():
    """every class of the package under test whose constructor takes a `debug` flag"""
    global _DEBUG_CLASSES
    if _DEBUG_CLASSES is None:
        import inspect
        import pkgutil
        import importlib
        import onl
        out = []
        seen = set()
        for m in pkgutil.walk_packages(onl.__path__, "onl."):
            try:
                mod = importlib.import_module(m.name)
            except Exception:  # noqa
                continue
            for name, c in vars(mod).items():
                if inspect.isclass(c) and c.__module__.startswith("onl.") and id(c) not in seen and "__init__" in c.__dict__:
                    seen.add(id(c))
                    try:
                        sig = inspect.signature(c.__dict__["__init__"])
                    except (TypeError, ValueError):
                        continue
                    if "debug" in sig.parameters:
                        out.append((c, c.__dict__["__init__"], sig))
        _DEBUG_CLASSES = out
    return _DEBUG_CLASSES


def with_debug(execute):
    """configurations carrying debug=1 are run with every element of the package constructed with debug=True (unless the
    caller passes the flag itself): the trace output goes to a null stream, the behaviour must be the same"""
    def run(ch, cfg):
        if not cfg.get("debug"):
            return execute(ch, cfg)
        classes = _debug_classes()

        def mk(orig, sig):
            def init(self, *a, **k):
                if "debug" not in k:
                    try:
                        if "debug" not in sig.bind_partial(self, *a, **k).arguments:
                            k["debug"] = True
                    except TypeError:
                        pass
                return orig(self, *a, **k)
            return init
        for (c, orig, sig) in classes:
            c.__init__ = mk(orig, sig)
        real = sys.stdout
        null = open(os.devnull, "w")
        sys.stdout = null
        try:
            return execute(ch, cfg)
        finally:
            sys.stdout = real
            null.close()
            for (c, orig, sig) in classes:
                c.__init__ = orig
    return run


KIND_KEYS = ("kind", "sched", "shape", "a", "b", "server", "cc", "map", "mon", "mailbox", "twin", "peak", "pir", "loss", "qtype")


def kind_key(c):
    return tuple((k, repr(c[k])) for k in KIND_KEYS if k in c)


def add_debug_variants(cfgs):
    """debug=1 copies of every long fixed workload and of the first fully explored configuration of each kind"""
    n = add_debug(cfgs, skip=lambda c: not c.get("long"))
    n += add_debug(cfgs, key=kind_key, skip=lambda c: c.get("long") or c.get("endurance"))
    return n


def add_debug(cfgs, key=None, skip=lambda c: False):
    """append a debug=1 copy of every configuration (or of the first one per `key`)"""
    out, seen = [], set()
    for c in cfgs:
        if skip(c) or c.get("debug"):
            continue
        if key is not None:
            k = key(c)
            if k in seen:
                continue
            seen.add(k)
        out.append(dict(c, debug=1))
    cfgs.extend(out)
    return len(out)


LONG_PATTERNS = [[3, 17, 8, 29, 11, 23, 5, 14, 26, 0, 19], [2, 27, 13, 8, 22, 18, 1], [0, 10, 1, 20, 2, 0, 30, 0, 3, 12, 0, 21, 5]]


def add_long(cfgs, n, key=None, patterns=None, skip=lambda c: False, extra=None, burst=0):
    """append one long fixed workload (n arrivals) per pattern for every configuration (or the first one per `key`);
    burst > 0: additionally one burst of that many packets at a single instant"""
    out = []
    seen = set()
    for c in cfgs:
        if skip(c) or c.get("long"):
            continue
        if key is not None:
            k = key(c)
            if k in seen:
                continue
            seen.add(k)
        for p in (patterns or LONG_PATTERNS):
            st = {"N": n(c) if callable(n) else n}
            st.update(extra or {})
            out.append(dict(c, long={"pattern": p, "set": st}))
        if burst:
            st = {"N": burst}
            st.update(extra or {})
            out.append(dict(c, long={"pattern": [0], "set": st}))
    cfgs.extend(out)
    return len(out)


DISTINCT_CAP = 2_000_000


class Stats:
    def __init__(self):
        self.executions = 0
        self.nodes = 0
        self.max_len = 0
        self.outcomes = set()
        self.nontrivial = set()
        self.nontrivial_execs = 0
        self.capped = False
        self.clauses = {}
        self.viol = {}        # (clause, shape) -> [count, (cfg_idx, choices, msg)]
        self.samples = []     # (cfg_idx, choices)

    def add(self, cfg_idx, prefix_len, ch, res):
        self.executions += 1
        n = len(ch.choices)
        self.nodes += (n - prefix_len + 1) if prefix_len else (n + 1)
        if n > self.max_len:
            self.max_len = n
        h = hash((cfg_idx, res.digest))
        if len(self.outcomes) < DISTINCT_CAP:
            self.outcomes.add(h)
        else:
            self.capped = True
        if res.nontrivial:
            self.nontrivial_execs += 1
            if len(self.nontrivial) < DISTINCT_CAP:
                self.nontrivial.add(h)
        for k, v in res.clauses.items():
            self.clauses[k] = self.clauses.get(k, 0) + v
        for (clause, shape, msg) in res.violations:
            key = (clause, shape)
            cur = self.viol.get(key)
            wit = (cfg_idx, list(ch.choices), msg, res.weight)
            if cur is None:
                self.viol[key] = [1, wit]
            else:
                cur[0] += 1
                if _simpler(wit, cur[1]):
                    cur[1] = wit

    def merge(self, o):
        self.executions += o.executions
        self.nodes += o.nodes
        self.max_len = max(self.max_len, o.max_len)
        self.nontrivial_execs += o.nontrivial_execs
        self.capped = self.capped or o.capped
        for name in ("outcomes", "nontrivial"):
            mine, theirs = getattr(self, name), getattr(o, name)
            if len(mine) + len(theirs) <= DISTINCT_CAP * 2:
                mine |= theirs
            else:
                self.capped = True
        for k, v in o.clauses.items():
            self.clauses[k] = self.clauses.get(k, 0) + v
        for key, (cnt, wit) in o.viol.items():
            cur = self.viol.get(key)
            if cur is None:
                self.viol[key] = [cnt, wit]
            else:
                cur[0] += cnt
                if _simpler(wit, cur[1]):
                    cur[1] = wit
        for s in o.samples:
            if len(self.samples) < 8:
                self.samples.append(s)


def _simpler(a, b):
    ka = (a[3] if len(a) > 3 else 0, sum(1 for c in a[1] if c), len(a[1]), a[0], a[1])
    kb = (b[3] if len(b) > 3 else 0, sum(1 for c in b[1] if c), len(b[1]), b[0], b[1])
    return ka < kb


def _trim(choices):
    c = list(choices)
    while c and c[-1] == 0:
        c.pop()
    return c


class ExecTimeout(BaseException):
    """raised inside an execution that runs longer than any execution on the verified tree (a loop that never yields)"""


_EXEC_MAX = [float(os.environ.get("VERIF_EXEC_MAX_S", "0") or 0) or 90.0]


def _alarm(signum, frame):
    raise ExecTimeout("one execution ran longer than %.0f s" % _EXEC_MAX[0])


def guarded(execute, prop=None):
    """wrap a harness so that an exception escaping it (from the code under test through an API call the harness makes,
    or from an oracle that meets a shape of behaviour it was not written for) becomes a reported result with a replay,
    instead of killing the whole exploration"""
    import signal

    def run(ch, cfg):
        # watchdog: on the verified tree an execution takes milliseconds (the long fixed workloads a few seconds); an
        # execution that spins without ever yielding to the kernel cannot be stopped by any step bound
        signal.signal(signal.SIGALRM, _alarm)
        signal.setitimer(signal.ITIMER_REAL, _EXEC_MAX[0])
        try:
            return execute(ch, cfg)
        except ReplayDivergence:
            raise
        except ExecTimeout as e:
            _EXEC_MAX[0] = min(_EXEC_MAX[0], 10.0)      # the next ones in this process are given less
            import traceback
            tb = traceback.extract_tb(e.__traceback__)
            where = "?"
            for fr in tb:
                if "/onl/" in fr.filename:
                    where = "%s:%s" % ("/".join(fr.filename.split("/")[-2:]), fr.name)
            r = Result()
            r.digest = ("timeout", where)
            r.bad("%s.noraise" % (prop or "check"), "execution-never-ends@%s" % where, str(e))
            return r
        except Exception as e:  # noqa
            import traceback
            tb = traceback.extract_tb(e.__traceback__)
            inner = tb[-1] if tb else None
            where = "?"
            origin = "check"
            for fr in tb:
                if "/onl/" in fr.filename:
                    origin = "code-under-test"
            if inner is not None:
                where = "%s:%s" % (inner.filename.split("/")[-1], inner.name)
            r = Result()
            r.digest = ("exception", type(e).__name__, where)
            r.bad("%s.noraise" % (prop or "check"), "unexpected-%s-in-%s@%s" % (type(e).__name__, origin, where), repr(e)[:300])
            return r
        finally:
            signal.setitimer(signal.ITIMER_REAL, 0)
    return run


def run_one(execute, cfg, prefix, budget=None, record=False):
    ch = Chooser(prefix, budget, record)
    res = execute(ch, cfg)
    return ch, res


def explore_subtree(execute, cfg, cfg_idx, root, budget, stats, limit=None, frontier=None, deadline=None):
    """DFS over all executions whose choice sequence extends `root`.
    With `limit`/`frontier`: stop expanding once `limit` executions were run and return the
    unexpanded prefixes in `frontier` (used by the parent to split work)."""
    stack = [list(root)]
    done = 0
    cap = int(os.environ.get("VERIF_DIAG_MAX_EXEC", "0") or 0)      # diagnostics only (coverage measurement); never set by checks
    while stack:
        if cap and stats.executions >= cap:
            return
        if deadline is not None and time.time() > deadline:
            e = Deadline("serial phase: configuration %d" % cfg_idx)
            e.stats = stats
            raise e
        if limit is not None and (len(stack) >= limit or done >= 40 * limit):
            frontier.extend(stack)
            return
        p = stack.pop(0) if limit is not None else stack.pop()
        ch = Chooser(p, budget)
        res = execute(ch, cfg)
        stats.add(cfg_idx, len(p), ch, res)
        done += 1
        if res.violations and any("execution-never-ends" in v[1] or "ExecTimeout" in v[1] for v in res.violations):
            # every such execution costs seconds of watchdog time: after three of them in this process the rest of this
            # configuration is left unexplored (a violation is on record, the run is not exhaustive and exits 1 anyway)
            _HANGS[cfg_idx] = _HANGS.get(cfg_idx, 0) + 1
        if _HANGS.get(cfg_idx, 0) >= 3:
            stats.capped = True
            return
        if len(stats.samples) < 3 and res.nontrivial:
            stats.samples.append((cfg_idx, _trim(ch.choices)))
        cs = ch.choices
        ar = ch.arity
        for i in range(len(cs) - 1, len(p) - 1, -1):
            a = ar[i]
            if a > 1:
                base = cs[:i]
                for alt in range(a - 1, 0, -1):
                    stack.append(base + [alt])


# ---- worker pool -------------------------------------------------------------------------
_W = {}
_HANGS = {}      # cfg_idx -> executions ended by the watchdog in this process


def _winit(execute, cfgs, budget):
    _W["execute"] = execute
    _W["cfgs"] = cfgs
    _W["budget"] = budget
    sys.stdout = open(os.devnull, "w")


def _wtask(item):
    cfg_idx, root = item
    st = Stats()
    explore_subtree(_W["execute"], _W["cfgs"][cfg_idx], cfg_idx, root, _W["budget"], st)
    return st


class Deadline(Exception):
    pass


def explore_all(execute, cfgs, budget=None, workers=None, split_target=4096, selftest=48, progress=None, deadline=None):
    """Explore every configuration's whole choice tree. Returns (Stats, selftest_mismatches)."""
    workers = workers or int(os.environ.get("VERIF_WORKERS", "0")) or min(16, os.cpu_count() or 1)
    total = Stats()
    items = []
    mismatches = []
    tested = 0
    real_stdout = sys.stdout
    sys.stdout = open(os.devnull, "w")
    try:
        for idx, cfg in enumerate(cfgs):
            if cfg.get("long"):
                items.append((idx, []))     # a single long execution: straight to the pool
                continue
            # determinism self-test on the first executions of this configuration
            if tested < selftest:
                ch1, r1 = run_one(execute, cfg, [], budget)
                ch2, r2 = run_one(execute, cfg, [], budget)
                tested += 1
                if (ch1.choices, ch1.arity, r1.digest, r1.violations) != (ch2.choices, ch2.arity, r2.digest, r2.violations):
                    mismatches.append((idx, []))
            frontier = []
            per_cfg = max(4, -(-split_target // max(1, len(cfgs))))
            explore_subtree(execute, cfg, idx, [], budget, total, limit=per_cfg, frontier=frontier, deadline=deadline)
            items.extend((idx, p) for p in frontier)
    finally:
        sys.stdout.close()
        sys.stdout = real_stdout
    # shallow prefixes root the biggest subtrees: start them first
    items.sort(key=lambda it: len(it[1]))
    if items:
        if workers <= 1:
            _winit(execute, cfgs, budget)
            sys.stdout = real_stdout
            devnull = open(os.devnull, "w")
            sys.stdout = devnull
            try:
                for it in items:
                    total.merge(_wtask(it))
            finally:
                sys.stdout = real_stdout
                devnull.close()
        else:
            ctx = mp.get_context("fork")
            # big-first ordering is unknown; small chunks keep the pool balanced
            with ctx.Pool(workers, initializer=_winit, initargs=(execute, cfgs, budget)) as pool:
                done = 0
                it = pool.imap_unordered(_wtask, items, chunksize=1)
                while True:
                    try:
                        st = it.next(timeout=None if deadline is None else max(1.0, deadline - time.time()))
                    except StopIteration:
                        break
                    except mp.TimeoutError:
                        pool.terminate()
                        e = Deadline("%d of %d work items finished" % (done, len(items)))
                        e.stats = total
                        raise e
                    total.merge(st)
                    done += 1
                    if progress and done % 200 == 0:
                        progress(done, len(items), total)
    return total, mismatches
