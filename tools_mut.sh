#!/bin/bash
# usage: tools_mut.sh <Cxx> <file-relative-to-repo> <python-expr old> <new>   -- quick manual mutation sanity check in a scratch copy
set -e
PID=$1; F=$2; OLD=$3; NEW=$4
D=$(mktemp -d /tmp/mut.XXXXXX)
rsync -a --exclude .git /repo/ $D/
/venv/bin/python - "$D/$F" "$OLD" "$NEW" <<'PY'
import sys
p,old,new=sys.argv[1:4]
s=open(p).read()
assert s.count(old)>=1, "pattern not found"
s=s.replace(old,new,1)
open(p,'w').write(s)
PY
ONL_REPO=$D timeout 600 /venv/bin/python /verif/run.py $PID --tier quick --no-evidence 2>&1 | cut -c1-260 | tail -5
rm -rf $D
