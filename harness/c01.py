"""C01 - events take effect in time order, urgent-first, then in trigger order (reference agenda)."""
from mc import kclient as KC
from mc.explore import Result

PROPERTY = "C01"
CLAUSES = ["C01.mono", "C01.due", "C01.order", "C01.neg", "C01.noraise"]
RULE = ("every process program of <= D executed instructions over {return, timeout(0|1|2|0.5), wait/succeed a shared "
        "event, join, interrupt, spawn, raise, timeout(-1)} with 2 initial and <= 4 processes, run to exhaustion or through "
        "run(until=t) calls (single and chained, also from a negative initial time to exactly 0), plus a variant with delays 2^-40, 1-2^-40 and inf; plus one fixed long run with more than 2^20 scheduled occurrences; non-trivial = two occurrences were pending for the same instant when one of them took effect; "
        "distinct = distinct observation logs")
ASSUMPTIONS = [
    "occurrences are observed black-box: probe callbacks on every event the harness creates, first statement of a body "
    "(process start), Interrupt received (interrupt), return of run(until=t) (numeric stop)",
    "a pending interrupt whose victim has terminated is discarded silently (the statement's rule)",
]
OPS = ["ret", ("T", 0), ("T", 1), ("T", 2), ("T", 0.5), ("W", 0, True), ("S", 0), ("J", True), "I", "Sp", "Tneg", "raise"]
MAP = {"mono": "C01.mono", "due": "C01.due", "order": "C01.order", "neg": "C01.neg", "noraise": "C01.noraise"}


def plan(tier, seed):
    quick = tier == "quick"
    d = 6 if quick else 7
    cfgs = [dict(depth=d, stop=None), dict(depth=d - 1, stop=1), dict(depth=d - 1, stop=2), dict(depth=d - 1, stop=0.5),
            dict(depth=d - 1, stop=[1, 2]), dict(depth=d - 1, stop=[0.5, 1, 2]),
            # a clock that starts below zero, stopped exactly at 0 (and at -1, 0): `until` values that are falsy numbers
            dict(depth=d - 2, stop=[-1, 0], init=-2), dict(depth=d - 2, stop=0.0, init=-1),
            # delays far below any rounding threshold next to whole instants
            dict(depth=d - 1, stop=None, tiny=1),
            # an integer clock far above 2**53 (nanosecond timestamps): instants must stay exact integers
            dict(depth=d - 2, stop=[2 ** 60 + 1, 2 ** 60 + 2], init=2 ** 60, ints=1),
            # one long deterministic run: more than 2^20 occurrences scheduled before an urgent and an old ordinary one coincide
            dict(endurance=2 ** 20 + 16)]
    return {"cfgs": cfgs, "budget": None, "bound": "D<=%d (run to exhaustion), D<=%d with run(until=0.5|1|2) and chained run(until=1);run(until=2); <=4 processes" % (d, d - 1)}


def endurance(cfg):
    """a single fixed program (no choice points): after > 2^20 scheduled occurrences an interrupt triggered at instant N must
    still be delivered before an ordinary timeout for N that was created at the very beginning; the clock must end at N"""
    from onl.sim import Environment, Interrupt
    res = Result()
    n = cfg["endurance"]
    env = Environment()
    log = []

    def interrupter(victim):
        yield env.timeout(n)            # created first: resumes first at instant n
        victim.interrupt("late")
        log.append(("issued", env.now))

    def old_waiter():
        yield env.timeout(n)            # an ordinary occurrence for instant n, created at the very beginning
        log.append(("old-timeout", env.now))

    def victim():
        try:
            yield env.event()
        except Interrupt as i:
            log.append(("interrupt", env.now))

    def looper():
        for _ in range(n):
            yield env.timeout(1)
        log.append(("looper", env.now))
    v = env.process(victim())
    env.process(interrupter(v))
    env.process(old_waiter())
    env.process(looper())
    try:
        env.run()
    except BaseException as e:  # noqa
        res.bad("C01.noraise", "endurance-run-raised-%s" % type(e).__name__, repr(e)[:100])
    res.digest = tuple(log)
    res.nontrivial = True
    res.ev("C01.order"); res.ev("C01.due")
    want = [("issued", n), ("interrupt", n), ("old-timeout", n), ("looper", n)]
    if log != want and not res.violations:
        kinds = [x[0] for x in log]
        if any(x[1] != n for x in log) or len(log) != 4:
            res.bad("C01.due", "occurrence-off-its-instant-after-2^20-schedulings", "log %r" % (log,))
        else:
            res.bad("C01.order", "ordinary-occurrence-before-urgent-interrupt-after-2^20-schedulings", "order %r, expected %r" % (kinds, [x[0] for x in want]))
    return res


def execute(ch, cfg):
    if cfg.get("endurance"):
        return endurance(cfg)
    from onl.sim import Environment
    ops = [o for o in OPS if o != ("T", 0.5)] if cfg.get("ints") else OPS if not cfg.get("tiny") else [o for o in OPS if o not in (("T", 2), ("T", 0.5))] + [("T", 2.0 ** -40), ("T", 1 - 2.0 ** -40), ("T", float("inf"))]
    k = KC.K(ch, ops, cfg["depth"], stop_at=cfg["stop"], reaction=False, env=Environment(cfg.get("init", 0))).run()
    res = Result()
    res.digest = k.digest()
    res.ev("C01.noraise")
    if k.crashed is not None and k.crashed[1] != "Err":
        # (a process that raises without anybody joining it ends the run with Err: that is C02's rule, not a defect)
        res.bad("C01.noraise", "run-raised-%s" % k.crashed[1], repr(k.crashed[:3]))
    viol, nt = KC.check_agenda(k)
    res.nontrivial = nt
    n = len(k.log)
    res.ev("C01.order", n); res.ev("C01.due", n); res.ev("C01.mono", n); res.ev("C01.neg")
    for (g, shape, msg) in list(k.bad) + viol:
        if g in MAP:
            res.bad(MAP[g], shape, msg)
    return res
