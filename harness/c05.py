"""C05 - condition events fire exactly when their predicate first holds, with exact value."""
from mc.explore import Result
from mc.kclient import Err, Abort, INF

from onl.sim import Environment

PROPERTY = "C05"
CLAUSES = ["C05.when", "C05.value", "C05.fail", "C05.late", "C05.env", "C05.once"]
RULE = ("every condition tree (root AllOf/AnyOf with 0-3 operands, &, |; operands are leaves or nested conditions to depth "
        "2/3, <= 3/4 leaves in total; binary roots also with exception objects as the values of successful operands) over leaves {fresh timeout(0|1|2), shared event succeeded/failed by a helper at instant "
        "0|1|2, child process returning/raising at instant 0|1 (so operands may already be processed, also as failures handled by a catcher, when the condition is built)}, built at instant 0|1 by a waiter created before or after "
        "the helpers, with or without an independent catcher on failing leaves, waiter catching or not; non-trivial = an "
        "operand was processed in the root's trigger instant besides the triggering one, or an operand failed; distinct = "
        "distinct (tree, timing, observation log)")
ASSUMPTIONS = [
    "observed through the root's waiter (resumption instant, value, exception) and run()/step() raising; processing moments "
    "of leaves come from probe callbacks appended at their creation",
    "the reference composes nested conditions recursively from the observed processing order of the leaves; a nested "
    "condition is processed in the instant it triggers",
    "crash expectation is three-valued: a failing leaf whose parent condition is already met (or that has no parent yet) and "
    "that nobody else waits for MUST make the run raise it at that instant; a failure that propagates through unmet "
    "conditions up to a catching waiter MUST NOT; other cases (failure absorbed by an inner condition whose own outcome "
    "nobody consumes) are not judged",
]
LEAVES = [("T", 0), ("T", 1), ("T", 2), ("E", 0, 1), ("E", 1, 1), ("E", 2, 1), ("E", 1, 0), ("E", 2, 0), ("P", 1, 1), ("P", 1, 0), ("P", 0, 1),
          ("E", 0, 0), ("P", 0, 0), ("P", 1, 0, "B")]       # "B": the child dies of a BaseException that is not an Exception
LEAVES_S = [("T", 0), ("T", 1), ("E", 0, 1), ("E", 1, 1), ("E", 1, 0), ("P", 1, 1), ("P", 1, 0), ("E", 0, 0)]
DUP = ("DUP",)      # the first leaf's event object once more (an event shared by two operands / two sub-conditions)
ROOTS = [("all", 0), ("any", 0), ("all", 1), ("any", 1), ("all", 2), ("any", 2), ("and",), ("or",), ("all", 3), ("any", 3)]
NESTED = [("all", 2), ("any", 2), ("and",), ("or",), ("any", 0), ("all", 1)]


def plan(tier, seed):
    quick = tier == "quick"
    cfgs = []
    for ri in range(len(ROOTS)):
        for c in (0, 1):
            for order in (0, 1):
                cfgs.append(dict(root=ri, c=c, order=order, depth=2, maxleaves=3, foreign=0))
                if not quick and ROOTS[ri][-1] in (2, 3) or (not quick and ROOTS[ri][0] in ("and", "or")):
                    # wider trees (4 leaves) on the reduced leaf menu
                    cfgs.append(dict(root=ri, c=c, order=order, depth=2, maxleaves=4, foreign=0, small=1))
                if not quick and ROOTS[ri] in (("all", 2), ("any", 2)) and c == 0 and order == 0:
                    # deeper trees (nesting depth 3) on the reduced leaf menu
                    cfgs.append(dict(root=ri, c=c, order=order, depth=3, maxleaves=3, foreign=0, small=1))
    for ri in (4, 5, 6, 7):
        for c in (0, 1):
            cfgs.append(dict(root=ri, c=c, order=0, depth=2, maxleaves=3 if quick else 4, foreign=0, dup=1, small=1))
    # the same event listed twice in ONE operand list, next to another operand: all_of([a, a, b]) waits for b
    for ri in (8, 9):
        for c in (0, 1):
            cfgs.append(dict(root=ri, c=c, order=0, depth=1, maxleaves=3, foreign=0, dup=1, small=1))
    # successful operands whose value is an exception object (timeout value, succeed(exc), process return value)
    for ri in (4, 5, 6, 7):
        for c in (0, 1):
            cfgs.append(dict(root=ri, c=c, order=0, depth=2, maxleaves=3, foreign=0, small=1, excvals=1))
    cfgs.append(dict(root=5, c=0, order=0, depth=1, maxleaves=2, foreign=2))
    cfgs.append(dict(root=4, c=0, order=0, depth=1, maxleaves=2, foreign=2))
    cfgs.append(dict(root=4, c=0, order=0, depth=1, maxleaves=2, foreign=1))
    cfgs.append(dict(root=7, c=0, order=0, depth=1, maxleaves=2, foreign=1))
    cfgs.append(dict(root=9, c=0, order=0, depth=1, maxleaves=3, foreign=1))
    return {"cfgs": cfgs, "budget": None,
            "bound": "roots AllOf/AnyOf(0..3), &, |; nesting depth <= %d; <= %d leaves (thorough: 4 leaves at depth 2 and depth 3 with 3 leaves use the 8-kind menu everywhere) (13 kinds at root level, 8 below); construction at 0|1; "
                     "helper/waiter creation order; catcher on/off; waiter catching or not" % (2 if quick else 3, 3 if quick else 4)}


class Node:
    pass


def shape_of(n):
    if n.kind == "leaf":
        return "%s%s" % (n.spec[0], ",".join(str(x) for x in n.spec[1:]))
    return "%s(%s)" % (n.spec[0], " ".join(shape_of(o) for o in n.ops))


def flatten(n):
    if n.kind == "leaf":
        return [n]
    out = []
    for o in n.ops:
        out.extend(flatten(o))
    return out


def execute(ch, cfg):
    res = Result()
    env = Environment()
    log = []          # (idx, now, kind, data)
    leaves = []
    conds = []
    budget = [cfg["maxleaves"]]

    def choose_node(depth, root=False):
        n = Node()
        n.parent = None
        if not root:
            menu = LEAVES if depth == 1 and not cfg.get("small") else LEAVES_S
            nested_ok = depth < cfg["depth"] and budget[0] >= 2
            opts = list(menu) + (NESTED if nested_ok else [])
            if cfg.get("dup") and leaves:
                opts = opts + [DUP]
            c = ch.choose(len(opts), lambda c: "operand %s" % (opts[c],), free=True)
            spec = opts[c]
            if spec == DUP:
                n.kind = "leaf"
                n.spec = leaves[0].spec
                n.alias = leaves[0]
                budget[0] -= 1
                leaves.append(n)
                return n
            if c < len(menu):
                n.kind = "leaf"
                n.spec = spec
                n.alias = None
                budget[0] -= 1
                leaves.append(n)
                return n
        else:
            spec = ROOTS[cfg["root"]]
        n.kind = "cond"
        n.spec = spec
        k = 2 if spec[0] in ("and", "or") else spec[1]
        n.ops = []
        for _ in range(k):
            if budget[0] <= 0:
                break
            o = choose_node(depth + 1)
            o.parent = n
            n.ops.append(o)
        if spec[0] in ("and", "or") and len(n.ops) < 2:
            n.spec = ("all" if spec[0] == "and" else "any", len(n.ops))
        n.is_all = n.spec[0] in ("all", "and")
        conds.append(n)
        return n
    root = choose_node(0, True)
    failing = [l for l in leaves if l.spec[0] in "EP" and not l.spec[2]]
    catcher = ch.choose(2, lambda c: "independent catcher on failing leaves: %s" % bool(c), free=True) if failing else 0
    catching = ch.choose(2, lambda c: "waiter %s" % ("catches" if c == 0 else "does not catch"), free=True) == 0
    foreign = cfg.get("foreign")
    got = {}

    def probe(n):
        def cb(ev):
            n.processed_at = len(log)
            log.append((len(log), env.now, "leaf", n))
            for m in leaves:
                if m.alias is n:
                    m.processed_at = len(log)
                    log.append((len(log), env.now, "leaf", m))      # the same event seen through its second operand slot
        return cb

    def helper(n):
        if n.spec[1]:
            yield env.timeout(n.spec[1])
        if n.ok:
            n.ev.succeed(n.val)
        else:
            n.ev.fail(Err(n.val))

    def child(n):
        if n.spec[1]:
            yield env.timeout(n.spec[1])
        if n.ok:
            return n.val
        if len(n.spec) > 3:
            raise Abort(n.val)
        raise Err(n.val)

    def catch(n):
        try:
            yield n.ev
        except (Err, Abort):
            pass

    def mk_helpers():
        for i, n in enumerate(leaves):
            n.val = ("v", i)
            n.ok = n.spec[0] == "T" or bool(n.spec[2])
            if cfg.get("excvals") and n.ok:
                # an exception OBJECT as the value of a successful operand (a result handed on, not raised): still a success
                n.val = Err(("v", i))
            n.processed_at = None
            n.caught = False
            if n.alias is not None:
                n.val = n.alias.val
                continue
            if n.spec[0] == "E":
                n.ev = env.event()
                n.ev.callbacks.append(probe(n))
                env.process(helper(n))
            elif n.spec[0] == "P":
                n.ev = env.process(child(n))
                n.ev.callbacks.append(probe(n))
            if not n.ok and catcher:
                env.process(catch(n))
                n.caught = True
        for n in leaves:
            if n.alias is not None and n.alias.spec[0] != "T":
                n.ev = n.alias.ev
                n.caught = n.alias.caught
    other = Environment()

    def construct(n):
        if n.kind == "leaf":
            if n.alias is not None:
                n.ev = n.alias.ev
                n.caught = n.alias.caught
                return n.ev
            if n.spec[0] == "T":
                n.ev = env.timeout(n.spec[1], value=n.val)
                n.ev.callbacks.append(probe(n))
            return n.ev
        evs = [construct(o) for o in n.ops]
        if foreign and n is root and evs:
            evs[-1] = other.event()
            if foreign == 2:
                # an event of another environment that has already been processed there
                evs[-1].succeed("foreign")
                other.run()
        s = n.spec
        operands = list(evs)      # the caller's own list ...
        if s[0] == "all":
            n.ev = env.all_of(operands)
        elif s[0] == "any":
            n.ev = env.any_of(operands)
        elif s[0] == "and":
            n.ev = evs[0] & evs[1]
        else:
            n.ev = evs[0] | evs[1]
        if s[0] in ("all", "any"):
            operands.append(env.event())      # ... which the caller goes on using: the condition took its operands at construction
        if n is not root:
            n.ev.callbacks.append(lambda ev, n=n: log.append((len(log), env.now, "cond", n)))
        return n.ev

    def waiter():
        if cfg["c"]:
            yield env.timeout(cfg["c"])
        got["built_at"] = len(log)
        got["built_now"] = env.now
        try:
            ev = construct(root)
        except BaseException as e:  # noqa
            got["ctor"] = type(e).__name__
            return
        got["ctor"] = "ok"
        log.append((len(log), env.now, "built", None))
        try:
            v = yield ev
        except (Err, Abort) as e:
            got["res"] = ("exc", e.args)
            got["at"] = (env.now, len(log))
            got["n"] = got.get("n", 0) + 1
            log.append((len(log), env.now, "waiter", None))
            if not catching:
                raise
            return
        got["res"] = ("ok", v)
        got["at"] = (env.now, len(log))
        got["n"] = got.get("n", 0) + 1
        got["keys"] = list(v.keys()) if hasattr(v, "keys") else None
        got["dict"] = v.todict() if hasattr(v, "todict") else None
        log.append((len(log), env.now, "waiter", None))
    if cfg["order"] == 0:
        mk_helpers()
        wp = env.process(waiter())
    else:
        wp = env.process(waiter())
        mk_helpers()
    wp.callbacks.append(lambda ev: log.append((len(log), env.now, "wend", ev._ok)))
    crashed = None
    try:
        n = 0
        while env.peek() < INF and n < 10000:
            env.step()
            n += 1
    except BaseException as e:  # noqa
        crashed = (env.now, type(e).__name__, tuple(getattr(e, "args", ())))
    res.digest = (tuple((x[1], x[2], leaves.index(x[3]) if x[2] == "leaf" else (conds.index(x[3]) if x[2] == "cond" else x[3])) for x in log), crashed,
                  got.get("res") and (got["res"][0], tuple(leaves.index(l) for l in leaves if got.get("keys") and l.ev in got["keys"])),
                  shape_of(root), catcher, catching)
    # ---- oracle -----------------------------------------------------------------------------------
    if foreign:
        res.ev("C05.env")
        res.nontrivial = True
        if root.ops and got.get("ctor") != "ValueError":
            res.bad("C05.env", "mixed-environments-accepted", "constructor outcome %r" % got.get("ctor"))
        return res
    if got.get("ctor") not in ("ok", None):
        res.bad("C05.when", "constructor-raised-%s" % got.get("ctor"), shape_of(root))
        return res
    built = got.get("built_at") if got.get("ctor") == "ok" else None
    # reference: walk the leaf processing events chronologically and compose the conditions recursively.
    for c in conds:
        c.ref = None        # ('ok',)/('fail', args)
        c.count = 0
        c.when = None       # (log position, instant)
    musts = []              # (log position, instant, args): unhandled failures that must make the run raise
    allowed = []            # (log position, instant, args): failures whose handling the statement leaves open

    def decide(c, o, pos, now):
        """operand o of c has just been processed"""
        failed = (not o.ok) if o.kind == "leaf" else (o.ref[0] == "fail")
        args = ((o.val,) if o.kind == "leaf" else o.ref[1]) if failed else None
        if c.ref is not None:
            # completes after c was decided: changes nothing; its failure is then an ordinary unhandled failure
            if failed and not (o.kind == "leaf" and (o.caught or o.alias is not None or getattr(o, "absorbed_elsewhere", False))):
                musts.append((pos, now, args))      # (a second operand slot of one and the same event is not a second failure)
            return
        if failed and not (o.kind == "leaf" and (o.caught or o.alias is not None)):
            a = c.parent
            while a is not None:
                if a.ref is not None:
                    allowed.append((pos, now, args))      # c may already have been detached by a decided ancestor
                    break
                a = a.parent
        c.count += 1
        if failed:
            c.ref = ("fail", args)
        elif (c.count == len(c.ops)) if c.is_all else True:
            c.ref = ("ok",)
        if c.ref is not None:
            c.when = (pos, now)
    if built is not None:
        # operands already processed at construction are looked at in operand order, inner conditions first
        def at_construction(c):
            for o in c.ops:
                if o.kind == "cond":
                    at_construction(o)
            for o in c.ops:
                if c.ref is not None:
                    break
                # a nested condition has only just been created: it is never 'already processed'
                if o.kind == "leaf" and o.processed_at is not None and o.processed_at < built:
                    decide_local(c, o)
            if c.ref is None and not c.ops:
                c.ref = ("ok",)
            if c.ref is not None and c.when is None:
                c.when = (built - 0.5, got["built_now"])

        def decide_local(c, o):
            failed = (not o.ok) if o.kind == "leaf" else (o.ref[0] == "fail")
            if c.ref is not None:
                return
            c.count += 1
            if failed:
                c.ref = ("fail", (o.val,) if o.kind == "leaf" else o.ref[1])
            elif (c.count == len(c.ops)) if c.is_all else True:
                c.ref = ("ok",)
        at_construction(root)
    early_nested = None
    for ent in log:
        idx, now, kind, n = ent
        if kind == "wend":
            if n is False and "res" in got and got["res"][0] == "exc":
                musts.append((idx, now, got["res"][1]))
            continue
        if kind == "cond":
            if n.ref is None:
                early_nested = early_nested or n
            elif n.parent is not None:
                decide(n.parent, n, idx, now)
            continue
        if kind != "leaf":
            continue
        if built is None or idx < built:
            # processed before any condition exists
            if not n.ok and not n.caught and n.alias is None:
                musts.append((idx, now, (n.val,)))
            continue
        if n.alias is None:
            # an event that fills several operand slots fails once: it is handled if any of its slots feeds an unmet condition
            group = [n] + [m for m in leaves if m.alias is n]
            slots = [g for g in group if g.parent is not None and g.parent.ref is None]
            n.absorbed_elsewhere = len(group) > 1 and bool(slots)

            def detached(c):
                a = c.parent
                while a is not None:
                    if a.ref is not None:
                        return True
                    a = a.parent
                return False
            if n.absorbed_elsewhere and not n.ok and not n.caught and all(detached(g.parent) for g in slots):
                # every unmet condition that could absorb the failure sits below an already decided one, which may have
                # detached it: the failure may then be nobody's (the statement does not say) - raising is admissible
                allowed.append((idx, now, (n.val,)))
        if n.parent is not None:
            decide(n.parent, n, idx, now)
    # ---- when -------------------------------------------------------------------------------------
    if early_nested is not None:
        res.bad("C05.when", "nested-%s-fired-although-its-predicate-did-not-hold" % kindof(early_nested), "%s inside %s" % (shape_of(early_nested), shape_of(root)))
        return res
    res.ev("C05.once")
    if got.get("n", 0) > 1:
        res.bad("C05.once", "waiter-resumed-twice", "")
        return res
    alive_until = crashed[0] if crashed else INF
    if built is not None:
        res.ev("C05.when")
        if root.when is None:
            if "at" in got:
                res.bad("C05.when", "%s-fired-although-its-predicate-never-held" % kindof(root), "%s: waiter resumed at %r" % (shape_of(root), got["at"][0]))
                return res
        elif root.when[1] < alive_until:
            tnow = root.when[1]
            if "at" not in got:
                res.bad("C05.when", "%s-never-fired-although-its-predicate-held" % kindof(root), "%s met at t=%r" % (shape_of(root), tnow))
                return res
            if got["at"][0] != tnow:
                res.bad("C05.when", "%s-fired-%s" % (kindof(root), "early" if got["at"][0] < tnow else "late"), "%s met at t=%r, waiter resumed at %r" % (shape_of(root), tnow, got["at"][0]))
                return res
            if got["at"][1] < root.when[0]:
                res.bad("C05.when", "%s-fired-early" % kindof(root), "%s: waiter resumed before the deciding operand was processed" % shape_of(root))
                return res
            if root.ref[0] == "ok":
                res.ev("C05.value")
                if got["res"][0] != "ok" or got.get("keys") is None:
                    res.bad("C05.fail", "waiter-got-an-exception-from-a-met-condition", "%s: %r" % (shape_of(root), got["res"]))
                    return res
                flat = flatten(root)
                want = [l for l in flat if l.processed_at is not None and l.processed_at < got["at"][1]]
                same_instant = [l for l in flat if l.processed_at is not None and log[l.processed_at][1] == tnow]
                if len(same_instant) >= 2:
                    res.nontrivial = True
                wk = [l.ev for l in want]

                def same(l, v):
                    return v == l.val if l.ok else (isinstance(v, (Err, Abort)) and v.args == (l.val,))
                if got["keys"] != wk or any(not same(l, got["dict"][l.ev]) for l in want):
                    missing = [l for l in want if l.ev not in got["keys"]]
                    extra = [e for e in got["keys"] if e not in wk]
                    sh = ("value-misses-a-processed-operand" if missing else ("value-contains-an-unprocessed-operand" if extra else
                          ("value-keys-out-of-operand-order" if got["keys"] != wk else "value-maps-an-operand-to-a-wrong-value")))
                    res.bad("C05.value", sh, "%s: keys %s expected %s" % (shape_of(root), [idx_of(leaves, e) for e in got["keys"]], [leaves.index(l) for l in want]))
                    return res
                # the value object's whole dictionary-like interface must tell the same story
                v = got["res"][1]
                api_ok = (all(l.ev in v for l in want) and all(same(l, v[l.ev]) for l in want)
                          and [k for k in v] == wk and len(list(v.values())) == len(wk)
                          and [k for k, _ in v.items()] == wk and v == v.todict()
                          and all((l.ev in v) == (l in want) for l in flat))
                if not api_ok:
                    res.bad("C05.value", "value-object-interface-inconsistent-with-its-keys", "%s: keys %s" % (shape_of(root), [idx_of(leaves, e) for e in v.keys()]))
                    return res
                res.ev("C05.late")
                if list(v.keys()) != wk:
                    res.bad("C05.late", "value-changed-after-the-condition-was-processed", shape_of(root))
                    return res
            else:
                res.ev("C05.fail")
                res.nontrivial = True
                if got["res"] != ("exc", root.ref[1]):
                    res.bad("C05.fail", "waiter-did-not-receive-the-failing-operand's-exception", "%s: got %r, expected Err%r" % (shape_of(root), got["res"], root.ref[1]))
                    return res
    # ---- run raising ------------------------------------------------------------------------------
    res.ev("C05.fail")
    res.ev("C05.late")
    if musts or allowed:
        res.nontrivial = True
    musts.sort()
    exp = musts[0] if musts else None
    if crashed is not None:
        ok_allowed = any(crashed[0] == a[1] and crashed[1] in ("Err", "Abort") and crashed[2] == tuple(a[2]) and (exp is None or a[0] < exp[0]) for a in allowed)
        if exp is None:
            if not ok_allowed:
                res.bad("C05.fail", "run-raised-%s" % ("although-the-operand's-failure-counted-as-handled" if crashed[1] in ("Err", "Abort") else crashed[1]), "%s: %r" % (shape_of(root), crashed))
        elif not ok_allowed and (crashed[0] != exp[1] or crashed[1] not in ("Err", "Abort") or crashed[2] != tuple(exp[2])):
            res.bad("C05.late", "unhandled-operand-failure-raised-wrongly", "%s: expected Err%r at %r, run raised %r" % (shape_of(root), exp[2], exp[1], crashed))
    elif exp is not None:
        res.bad("C05.late", "unhandled-operand-failure-passed-silently", "%s: Err%r at t=%r has no waiting process and no pending condition" % (shape_of(root), exp[2], exp[1]))
    return res


def root_chain_handles(root, leaves, crashed):
    """the crash is by a leaf whose failure propagated through unmet conditions up to the (catching) waiter"""
    for l in leaves:
        if not l.ok and crashed[2] == (l.val,):
            c = l.parent
            n = l
            while c is not None:
                if c.ref is None or c.ref[0] != "fail" or c.ref[1] != (l.val,) or c.when is None:
                    return False
                n, c = c, c.parent
            return True
    return False


def idx_of(leaves, e):
    for i, l in enumerate(leaves):
        if l.ev is e:
            return i
    return "?"


def kindof(c):
    return "all_of" if c.is_all else "any_of"
