"""C18 - demuxes, switches, hubs, splitters deliver to the right place; FatTree structure, shortest
paths, generated FIBs and end-to-end delivery."""
import networkx as nx

from mc.explore import Result

from onl.sim import Environment
from onl.packet import Packet
from onl.netdev import Port, Wire, SimplePacketSwitch, FairPacketSwitch, Splitter, NSplitter, Hub
from onl.netdev.demux import FlowDemux, FIBDemux
import onl.topo.fattree as ftmod
from onl.topo import FatTree

PROPERTY = "C18"
CLAUSES = ["C18.noraise", "C18.flowdemux", "C18.fibdemux", "C18.switch", "C18.hub", "C18.split", "C18.ft.shape",
           "C18.ft.path", "C18.ft.fib", "C18.ft.sim"]
RULE = ("FlowDemux: every (len(outs) in 0..3, default?, flow in 0..4); FIBDemux: every table flows{0,1,2}->ports{0,1,2,7} "
        "incl. the empty table x ends maps x default x outs None/[]/list; switches with nports<=3; Hub: 2-4 endpoints x 4 "
        "construction styles x every sender; splitters: every connection pattern; FatTree: structure for k in 2..8(12), "
        "every (src,dst,path) the owned sample() can return for k=2,4 (k=6: for the sources listed in bound), with/without tcp, flow pairs, simulated with bare "
        "demux+port nodes and with FairPacketSwitch(WFQ) nodes sharing one class; non-trivial = the packet had >= 2 "
        "candidate outputs or the flows share a directed link; distinct = distinct (configuration, delivery map)")
ASSUMPTIONS = [
    "flow ids are non-negative ints; a FIB entry naming a port outside `outs` may go to the default output or nowhere",
    "networkx is trusted for graph bookkeeping (shortest path lengths, neighbours)",
    "onl.topo.fattree.sample is owned by the harness (every ordered host pair and every shortest path is enumerated)",
]


class Rec:
    def __init__(self, name, log):
        self.name = name; self.log = log; self.element_id = name; self.out = None

    def put(self, pkt):
        self.log.append((self.name, pkt))


def plan(tier, seed):
    quick = tier == "quick"
    cfgs = [dict(shape="flowdemux"), dict(shape="fibdemux"), dict(shape="switch"), dict(shape="hub"), dict(shape="split")]
    for k in ((2, 4, 6, 8) if quick else (2, 4, 6, 8, 10, 12)):
        cfgs.append(dict(shape="ftshape", k=k))
    for tcp in (0, 1):
        for node in ("bare", "fair"):
            cfgs.append(dict(shape="ft", k=2, nflows=2, tcp=tcp, node=node))
            cfgs.append(dict(shape="ft", k=4, nflows=1, tcp=tcp, node=node))
    cfgs.append(dict(shape="ft", k=2, nflows=3, tcp=1, node="fair"))
    cfgs.append(dict(shape="ft", k=2, nflows=2, tcp=1, node="bare", rekey=1))
    cfgs.append(dict(shape="ft", k=4, nflows=1, tcp=0, node="bare", rekey=1))
    cfgs += [dict(shape="fiblive"), dict(shape="hubreply")]
    if not quick:
        for node in ("bare", "fair"):
            cfgs.append(dict(shape="ft", k=4, nflows=2, tcp=1, node=node, first=240))
    else:
        cfgs.append(dict(shape="ft", k=4, nflows=2, tcp=1, node="fair", first=16))
    # k >= 6 is the first size at which a host pair in one pod has simple paths within the diameter that are not shortest
    # paths (round 5): every (dst, path) for the first 10 sources (two pods) in the quick tier, all 2862 pairs / one source of k=8 in thorough
    if quick:
        cfgs.append(dict(shape="ft", k=6, nflows=1, tcp=0, node="bare", first=530))
        cfgs.append(dict(shape="ft", k=6, nflows=1, tcp=1, node="fair", first=53))
    else:
        for tcp, node in ((0, "bare"), (1, "fair")):
            cfgs.append(dict(shape="ft", k=6, nflows=1, tcp=tcp, node=node))
        cfgs.append(dict(shape="ft", k=8, nflows=1, tcp=1, node="bare", first=127))
    return {"cfgs": cfgs, "budget": None,
            "bound": "FlowDemux/FIBDemux/switch/hub/splitter grids complete as listed in rule; FatTree k<=%d structure; k=2 all flow "
                     "triples, k=4 all 848 single flows x tcp x 2 node kinds, k=4 flow pairs with the first flow among the first %d choices; k=6 every (dst, path) for %s" % (8 if quick else 12, 16 if quick else 240, "the first 10 sources (1 with tcp/fair nodes)" if quick else "all 2862 host pairs x {plain/bare, tcp/fair}, k=8 for one source")}


def execute(ch, cfg):
    res = Result()
    try:
        out = {"fiblive": ex_fiblive, "hubreply": ex_hubreply, "flowdemux": ex_flowdemux, "fibdemux": ex_fibdemux, "switch": ex_switch, "hub": ex_hub, "split": ex_split,
               "ftshape": ex_ftshape, "ft": ex_ft}[cfg["shape"]](ch, cfg, res)
        res.digest = out
    except ReferenceError:
        raise
    return res


def guarded(res, tag, fn):
    """run fn; an exception is a C18.noraise violation with the raising call site as shape"""
    from mc.net import _where
    res.ev("C18.noraise")
    try:
        fn()
        return True
    except BaseException as e:  # noqa
        res.bad("C18.noraise", "%s:%s@%s" % (tag, type(e).__name__, _where(e)), repr(e)[:200])
        return False


def ex_flowdemux(ch, cfg, res):
    nouts = ch.choose(4, lambda c: "len(outs)=%d" % c, free=True)
    dflt = ch.choose(2, lambda c: "default %s" % ("present" if c else "absent"), free=True)
    flow = ch.choose(5, lambda c: "flow %d" % c, free=True)
    grown = ch.choose(3, lambda c: "outputs appended after construction: %d" % c, free=True)
    log = []
    outs = [Rec("o%d" % i, log) for i in range(nouts)]
    d = FlowDemux(outs, Rec("default", log) if dflt else None)
    for i in range(grown):
        d.outs.append(Rec("o%d" % (nouts + i), log))      # the output list is public and may be extended later (as switches add ports)
    nouts += grown
    p = Packet(0, 1, 0, flow_id=flow)
    if not guarded(res, "FlowDemux", lambda: d.put(p)):
        return ("raise",)
    want = ["o%d" % flow] if flow < nouts else (["default"] if dflt else [])
    res.ev("C18.flowdemux")
    res.nontrivial = nouts >= 1
    got = [n for n, q in log]
    if got != want or any(q is not p for n, q in log):
        res.bad("C18.flowdemux", "FlowDemux:%s" % ("wrong-output" if got else "not-delivered"), "outs=%d default=%d flow=%d: delivered to %s, rule says %s" % (nouts, dflt, flow, got, want))
    return (nouts, dflt, flow, tuple(got))


PORTS = [None, 0, 1, 2, 7]


def ex_fibdemux(ch, cfg, res):
    entries = [PORTS[ch.choose(len(PORTS), lambda c, f=f: "fib[%d]=%s" % (f, PORTS[c]), free=True)] for f in range(3)]
    fib = {f: p for f, p in enumerate(entries) if p is not None}
    outs_kind = ch.choose(3, lambda c: "outs=%s" % ["list of 3", "None", "[]"][c], free=True)
    ends_kind = ch.choose(3, lambda c: "ends=%s" % ["None", "{1: end}", "{0: end, 2: end}"][c], free=True)
    dflt = ch.choose(2, lambda c: "default %s" % ("present" if c else "absent"), free=True)
    flow = ch.choose(4, lambda c: "flow %d" % c, free=True)
    reps = [1, 70][ch.choose(2, lambda c: "the packet is preceded by %d packets of an unknown flow" % [0, 69][c], free=True)]
    log = []
    outs = [[Rec("o%d" % i, log) for i in range(3)], None, []][outs_kind]
    ends = [None, {1: Rec("end1", log)}, {0: Rec("end0", log), 2: Rec("end2", log)}][ends_kind]
    d = FIBDemux(outs=outs, ends=ends, fib=dict(fib), default_out=Rec("default", log) if dflt else None)
    p = Packet(0, 1, 0, flow_id=flow)
    tag = "FIBDemux(fib=%s,outs=%s)" % ("{}" if not fib else "set", ["list", "None", "[]"][outs_kind])
    if reps > 1:
        # a long-lived demux: earlier traffic for a flow nobody knows (goes to the default output or nowhere)
        warm = [Packet(0, 1, 1000 + i, flow_id=9) for i in range(reps - 1)]
        if not guarded(res, tag, lambda: [d.put(w) for w in warm]):
            return ("raise-warm",)
        wgot = [n for n, q in log]
        if wgot != (["default"] * (reps - 1) if dflt else []):
            res.bad("C18.fibdemux", tag + ":unknown-flow-not-sent-to-the-default-output", "%d packets of an unknown flow: %d reached the default output" % (reps - 1, wgot.count("default")))
            return ("warm",)
        del log[:]
    if not guarded(res, tag, lambda: d.put(p)):
        return ("raise", tuple(entries), outs_kind, ends_kind, dflt, flow)
    nout = 3 if outs_kind == 0 else 0
    if ends and flow in ends:
        want = [["end%d" % flow]]
    elif flow in fib and fib[flow] < nout:
        want = [["o%d" % fib[flow]]]
    elif flow in fib:
        want = [["default"], []] if dflt else [[]]          # table names a port that does not exist
    else:
        want = [["default"]] if dflt else [[]]
    got = [n for n, q in log]
    res.ev("C18.fibdemux")
    res.nontrivial = bool(fib) and nout > 0
    if got not in want or any(q is not p for n, q in log):
        res.bad("C18.fibdemux", "%s:%s" % (tag, "wrong-output" if got else "not-delivered"),
                "fib=%s ends=%s default=%d flow=%d: delivered to %s, rule says %s" % (fib, sorted(ends) if ends else None, dflt, flow, got, want[0]))
    return (tuple(entries), outs_kind, ends_kind, dflt, flow, tuple(got))


def ex_switch(ch, cfg, res):
    kind = ch.choose(5, lambda c: ["SimplePacketSwitch", "Fair(SP)", "Fair(WFQ)", "Fair(DRR)", "Fair(VirtualClock)"][c], free=True)
    nports = 1 + ch.choose(3, lambda c: "nports=%d" % (c + 1), free=True)
    flows = [ch.choose(4, lambda c, i=i: "packet %d flow %d" % (i, c), free=True) for i in range(2)]
    env = Environment()
    log = []
    names = ["SimplePacketSwitch", "FairPacketSwitch(SP)", "FairPacketSwitch(WFQ)", "FairPacketSwitch(DRR)", "FairPacketSwitch(VirtualClock)"]
    tag = names[kind]
    fib = None
    if kind == 0:
        sw = SimplePacketSwitch(env, nports, 8, 4, "s")
        route = lambda f: f if f < nports else None
    else:
        server = ["SP", "WFQ", "DRR", "VirtualClock"][kind - 1]
        sw = FairPacketSwitch(env, nports, 8, 4, {0: 1, 1: 2, 2: 1}, server, "f")
        fib = {f: (f + 1) % nports for f in range(3)}
        sw.demux.fib = fib
        route = lambda f: fib.get(f)
    for i, p in enumerate(sw.ports):
        p.out = Rec("o%d" % i, log)
    pkts = [Packet(0, 1, i, flow_id=f) for i, f in enumerate(flows)]

    def go():
        for p in pkts:
            sw.put(p)
        env.run(until=50)
    if not guarded(res, tag, go):
        return ("raise", kind, nports, tuple(flows))
    res.ev("C18.switch")
    res.nontrivial = nports >= 2
    for p in pkts:
        got = [n for n, q in log if q is p]
        r = route(p.flow_id)
        want = ["o%d" % r] if r is not None else []
        if got != want:
            res.bad("C18.switch", "%s:%s" % (tag, "wrong-output" if got else "not-delivered"), "nports=%d flow=%d: delivered to %s, rule says %s" % (nports, p.flow_id, got, want))
            break
    return (kind, nports, tuple(flows), tuple(n for n, q in log))


def ex_fiblive(ch, cfg, res):
    """a demux that lives through table changes: entries added / changed in place after a flow has been seen, a default
    output attached later, and tables that answer for every flow (defaultdict)"""
    from collections import defaultdict
    kind = ch.choose(3, lambda c: "table is " + ["a dict", "a defaultdict naming port 1 for every flow", "a dict subclass with __missing__ -> port 2"][c], free=True)
    flow = ch.choose(3, lambda c: "flow %d" % c, free=True)
    first = PORTS[ch.choose(3, lambda c: "fib[flow]=%s at construction" % PORTS[c], free=True)]
    second = [None, 0, 2][ch.choose(3, lambda c: "afterwards fib[flow]=%s is written in place" % [None, 0, 2][c], free=True)]
    late_default = ch.choose(2, lambda c: "default output attached %s" % ("after the first packet" if c else "at construction"), free=True)
    log = []
    outs = [Rec("o%d" % i, log) for i in range(3)]

    class Missing(dict):
        def __missing__(self, key):
            return 2
    base = {flow: first} if first is not None else {}
    table = [dict(base), defaultdict(lambda: 1, base), Missing(base)][kind]
    dflt = Rec("default", log)
    d = FIBDemux(outs=outs, fib=table, default_out=None if late_default else dflt)
    tag = "FIBDemux(live,%s)" % ["dict", "defaultdict", "dict-with-__missing__"][kind]

    def rule(tab_first):
        if tab_first is not None:
            return "o%d" % tab_first
        return ["default", "o1", "o2"][kind]
    seq = []
    p1 = Packet(0, 1, 0, flow_id=flow)
    if not guarded(res, tag, lambda: d.put(p1)):
        return ("raise-1", kind, flow, first)
    want1 = rule(first)
    if want1 == "default" and late_default:
        want1 = None
    seq.append(want1)
    if late_default:
        d.default_out = dflt
    cur = first
    if second is not None:
        d.fib[flow] = second
        cur = second
    p2 = Packet(1, 1, 1, flow_id=flow)
    p3 = Packet(1, 1, 2, flow_id=8)          # a flow the table never heard of
    if not guarded(res, tag, lambda: (d.put(p2), d.put(p3))):
        return ("raise-2", kind, flow, first, second)
    seq.append(rule(cur))
    seq.append(["default", "o1", "o2"][kind])
    got = [nm for nm, q in log]
    res.ev("C18.fibdemux")
    res.nontrivial = second is not None or kind > 0
    if got != [x for x in seq if x is not None]:
        res.bad("C18.fibdemux", tag + ":wrong-output-after-the-table-changed" if got[:1] == [x for x in seq[:1] if x] else tag + ":wrong-output",
                "flow %d: fib[flow] %s then %s, default %s: delivered to %s, rule says %s" % (flow, first, second, "late" if late_default else "set", got, [x for x in seq if x]))
    return (kind, flow, first, second, late_default, tuple(got))


def ex_hubreply(ch, cfg, res):
    """an endpoint that answers at once, inside its own put: the reply is repeated to everybody but the replier, and the
    original still reaches everybody but its sender"""
    n = 3 + ch.choose(2, lambda c: "%d endpoints" % (c + 3), free=True)
    sender = ch.choose(n, lambda c: "sender ep%d" % c, free=True)
    replier = ch.choose(n, lambda c: "ep%d replies inside put" % c, free=True)
    env = Environment()
    log = []
    holder = {}

    class Ep:
        def __init__(self, i):
            self.i = i; self.element_id = "ep%d" % i; self.out = None

        def put(self, pkt):
            log.append((self.i, pkt.packet_id))
            if self.i == replier and pkt.packet_id == 0:
                self.out.put(Packet(0, 1, 1, src=self.element_id))
    eps = [Ep(i) for i in range(n)]
    tag = "Hub(reply-inside-put)"
    if not guarded(res, tag, lambda: holder.setdefault("h", Hub(env, eps))):
        return ("raise-ctor",)
    if not guarded(res, tag, lambda: holder["h"].put(Packet(0, 1, 0, src="ep%d" % sender))):
        return ("raise-put", n, sender, replier)
    res.ev("C18.hub")
    res.nontrivial = replier != sender
    want = sorted([(i, 0) for i in range(n) if i != sender] + ([(i, 1) for i in range(n) if i != replier] if replier != sender else []))
    if sorted(log) != want:
        res.bad("C18.hub", tag + ":wrong-recipients", "sender ep%d, ep%d replies: deliveries (endpoint, packet) %s, expected %s" % (sender, replier, sorted(log), want))
    return (n, sender, replier, tuple(log))


def ex_hub(ch, cfg, res):
    n = 2 + ch.choose(3, lambda c: "%d endpoints" % (c + 2), free=True)
    style = ch.choose(4, lambda c: "constructed " + ["Hub(env, eps)", "Hub(env, eps, [None]*n)", "Hub(env, eps, ports)", "Hub(env) + add_endpoint"][c], free=True)
    sender = ch.choose(n, lambda c: "sender ep%d" % c, free=True)
    idkind = ch.choose(2, lambda c: "endpoint ids are %s" % ["strings", "ints (endpoints are Device subclasses)"][c], free=True)
    env = Environment()
    log = []
    if idkind == 0:
        eps = [Rec("ep%d" % i, log) for i in range(n)]
    else:
        from onl.device import Device

        class DevEp(Device):
            def __init__(self, i):
                self.element_id = 100 + i      # through Device's own property
                self.name = "ep%d" % i
                self.out = None

            def put(self, pkt):
                log.append((self.name, pkt))
        eps = [DevEp(i) for i in range(n)]
    plog = []

    class PortDev:
        def __init__(self, i):
            self.i = i; self.out = None

        def put(self, pkt):
            plog.append(self.i)
            self.out.put(pkt)
    ports = [PortDev(i) for i in range(n)]
    tag = "Hub(%s)" % ["default-ports", "ports-all-None", "per-endpoint-ports", "add_endpoint"][style]
    holder = {}

    def mk():
        if style == 0:
            holder["h"] = Hub(env, eps)
        elif style == 1:
            holder["h"] = Hub(env, eps, [None] * n)
        elif style == 2:
            holder["h"] = Hub(env, eps, ports)
        else:
            h = Hub(env)
            for i, e in enumerate(eps):
                h.add_endpoint(e, ports[i] if i % 2 else None)
            holder["h"] = h
    if not guarded(res, tag, mk):
        return ("raise-ctor", n, style)
    p = Packet(0, 1, 0, src=("ep%d" % sender) if idkind == 0 else 100 + sender)
    if not guarded(res, tag, lambda: holder["h"].put(p)):
        return ("raise-put", n, style, sender)
    res.ev("C18.hub")
    res.nontrivial = n >= 3
    got = sorted(nm for nm, q in log)
    want = sorted("ep%d" % i for i in range(n) if i != sender)
    via = sorted(plog)
    want_via = sorted(i for i in range(n) if i != sender and (style == 2 or (style == 3 and i % 2)))
    if got != want or any(q is not p for nm, q in log):
        res.bad("C18.hub", tag + ":wrong-recipients", "sender ep%d of %d: delivered to %s" % (sender, n, got))
    elif via != want_via:
        res.bad("C18.hub", tag + ":port-device-bypassed-or-misused", "via ports %s, expected %s" % (via, want_via))
    elif any(e.out is not holder["h"] for e in eps):
        res.bad("C18.hub", tag + ":endpoint-not-attached-to-hub", "")
    return (n, style, sender, tuple(got), tuple(via))


def ex_split(ch, cfg, res):
    n = 2 + ch.choose(3, lambda c: ["Splitter", "NSplitter(2)", "NSplitter(3)"][c], free=True)
    cls = "Splitter" if n == 2 else "NSplitter"
    width = 2 if n <= 3 else 3
    conn = [ch.choose(2, lambda c, i=i: "output %d %s" % (i, "connected" if c else "unconnected"), free=True) for i in range(width)]
    log = []
    rewrite = ch.choose(2, lambda c: "element on a copy output rewrites the header inside put: %s" % bool(c), free=True)

    class Rewriter(Rec):
        """a downstream element that rewrites header fields of what it receives, synchronously inside put"""

        def put(self, pkt):
            seen_fields.append((self.name, (pkt.packet_id, pkt.flow_id, pkt.src, pkt.dst, pkt.size, pkt.time, pkt.payload)))
            Rec.put(self, pkt)
            if rewrite and self.name != "o0":
                pkt.flow_id = 55; pkt.dst = "rewritten"
    seen_fields = []
    if n == 2:
        sp = Splitter()
        if conn[0]:
            sp.out1 = Rewriter("o0", log)
        if conn[1]:
            sp.out2 = Rewriter("o1", log)
    else:
        sp = NSplitter(width)
        for i in range(width):
            if conn[i]:
                sp.outs[i] = Rewriter("o%d" % i, log)
    class TaggedPacket(Packet):
        """applications subclass Packet and attach their own header fields"""
    p = TaggedPacket(3, 5, 9, src="s", dst="d", flow_id=1, payload="x")
    p.ttl = 17
    p.ack = 4
    if not guarded(res, cls, lambda: sp.put(p)):
        return ("raise", n, tuple(conn))
    res.ev("C18.split")
    res.nontrivial = sum(conn) >= 2
    got = [nm for nm, q in log]
    want = ["o%d" % i for i in range(width) if conn[i]]
    fields = lambda q: (q.packet_id, q.flow_id, q.src, q.dst, q.size, q.time, q.payload)
    orig_fields = (9, 1, "s", "d", 5, 3, "x")
    for nm, f in seen_fields:
        if f != orig_fields:
            res.bad("C18.split", cls + ":output-received-a-packet-another-output-had-already-rewritten", "%s received %r" % (nm, f))
            return (n, tuple(conn), tuple(got), rewrite)
    if rewrite:
        if p.flow_id != 1 or p.dst != "d":
            res.bad("C18.split", cls + ":rewriting-a-copy-changed-the-original", "original now flow %r dst %r" % (p.flow_id, p.dst))
        return (n, tuple(conn), tuple(got), rewrite)
    if sorted(got) != want:
        res.bad("C18.split", cls + ":wrong-outputs", "connected %s, delivered %s" % (want, got))
        return (n, tuple(conn), tuple(got))
    objs = {nm: q for nm, q in log}
    for nm, q in log:
        if nm == "o0" and q is not p:
            res.bad("C18.split", cls + ":first-output-is-not-the-original", "")
        elif nm != "o0" and q is p:
            res.bad("C18.split", cls + ":copy-output-carries-the-original", nm)
        elif fields(q) != fields(p) or getattr(q, "ttl", None) != 17 or q.ack != 4 or type(q) is not type(p):
            res.bad("C18.split", cls + ":copy-differs-from-original", "%s: type %s ttl %r ack %r" % (nm, type(q).__name__, getattr(q, "ttl", None), q.ack))
    if len(set(id(q) for q in objs.values())) != len(objs):
        res.bad("C18.split", cls + ":outputs-share-one-object", "")
    # header fields of one copy can be changed independently
    for nm, q in log:
        if nm != "o0":
            q.flow_id = 77; q.dst = "elsewhere"; q.size = 1; q.color = "red"
            others = [(m, r) for m, r in log if r is not q] + [("orig", p)]
            if any(r.flow_id == 77 or r.dst == "elsewhere" or r.color == "red" or r.size == 1 for m, r in others):
                res.bad("C18.split", cls + ":copies-not-independent", nm)
            break
    return (n, tuple(conn), tuple(got))


def ex_ftshape(ch, cfg, res):
    k = cfg["k"]
    ft = FatTree(k)
    g = ft.topo
    layer = nx.get_node_attributes(g, "layer")
    cnt = {}
    for v, l in layer.items():
        cnt[l] = cnt.get(l, 0) + 1
    res.ev("C18.ft.shape")
    res.nontrivial = True
    want = {"core": (k // 2) ** 2, "aggregation": k * k // 2, "edge": k * k // 2, "leaf": k ** 3 // 4}
    if cnt != want:
        res.bad("C18.ft.shape", "FatTree:node-counts", "k=%d: %s, expected %s" % (k, cnt, want))
        return (k, "counts")
    if sorted(ft.hosts) != sorted(v for v, l in layer.items() if l == "leaf"):
        res.bad("C18.ft.shape", "FatTree:hosts-set", "k=%d" % k)
    for v in g.nodes():
        deg = g.degree(v)
        nb = [layer[u] for u in g.neighbors(v)]
        ok = True
        if layer[v] == "leaf":
            ok = deg == 1 and nb == ["edge"]
        elif layer[v] == "edge":
            ok = deg == k and nb.count("leaf") == k // 2 and nb.count("aggregation") == k // 2
        elif layer[v] == "aggregation":
            ok = deg == k and nb.count("edge") == k // 2 and nb.count("core") == k // 2
        else:
            ok = deg == k and nb.count("aggregation") == k
            pods = [g.nodes[u]["pod"] for u in g.neighbors(v)]
            ok = ok and sorted(pods) == list(range(k))
        if layer[v] in ("edge", "aggregation"):
            pod = g.nodes[v]["pod"]
            ok = ok and all(g.nodes[u].get("pod", pod) == pod for u in g.neighbors(v) if layer[u] != "core")
        if not ok:
            res.bad("C18.ft.shape", "FatTree:degree-or-wiring-of-%s-node" % layer[v], "k=%d node %s degree %d neighbours %s" % (k, v, deg, nb))
            return (k, "wiring")
    if g.number_of_edges() != 3 * k ** 3 // 4 or not nx.is_connected(g):
        res.bad("C18.ft.shape", "FatTree:edge-count-or-connectivity", "k=%d edges %d" % (k, g.number_of_edges()))
    return (k, "ok")


_FT = {}


def ex_ft(ch, cfg, res):
    k = cfg["k"]
    ft = FatTree(k)
    hosts = sorted(ft.hosts)
    pairs = [(s, d) for s in hosts for d in hosts if s != d]
    calls = {"n": 0}

    def fake_sample(pop, n):
        pop = list(pop)
        calls["n"] += 1
        if n == 2:
            m = len(pop) * (len(pop) - 1)
            lim = m
            if cfg.get("first") and calls["n"] == 1:
                lim = min(m, cfg["first"])
            c = ch.choose(lim, lambda c: "flow endpoints #%d" % c, free=True)
            i, j = divmod(c, len(pop) - 1)
            rest = pop[:i] + pop[i + 1:]
            return [pop[i], rest[j]]
        c = ch.choose(len(pop), lambda c: "shortest path #%d of %d" % (c, len(pop)), free=True)
        return [pop[c]]
    saved = ftmod.sample
    ftmod.sample = fake_sample
    flows = {}
    try:
        ok = guarded(res, "FatTree.generate_flows", lambda: flows.update(ft.generate_flows(cfg["nflows"])))
        if ok:
            # the caller may file the flows under keys of its own: the tables are built from each flow's own id
            given = {key + 100: fl for key, fl in flows.items()} if cfg.get("rekey") else flows
            ok = guarded(res, "FatTree.generate_fib", lambda: ft.generate_fib(given, tcp=bool(cfg["tcp"])))
    finally:
        ftmod.sample = saved
    if not ok:
        return ("raise",)
    g = ft.topo
    sig = []
    for fid in sorted(flows):
        fl = flows[fid]
        sig.append((fl.src, fl.dst, tuple(fl.path)))
        res.ev("C18.ft.path")
        p = fl.path
        good = (fl.src in ft.hosts and fl.dst in ft.hosts and fl.src != fl.dst and p and p[0] == fl.src and p[-1] == fl.dst
                and all(g.has_edge(a, b) for a, b in zip(p, p[1:])) and len(set(p)) == len(p)
                and len(p) - 1 == nx.shortest_path_length(g, fl.src, fl.dst) and getattr(fl, "fid", None) == fid)
        if not good:
            res.bad("C18.ft.path", "FatTree:flow-path-not-a-shortest-path-between-distinct-hosts", "flow %s: %s -> %s path %s" % (fid, fl.src, fl.dst, p))
            return ("badpath",)
        for cls, path in ((fid, p), (fid + 10000, list(reversed(p)))):
            if cls >= 10000 and not cfg["tcp"]:
                for v in g.nodes():
                    if cls in g.nodes[v]["flow_to_port"]:
                        res.bad("C18.ft.fib", "FatTree:reverse-entries-without-tcp", "node %s" % v)
                        return ("fib",)
                continue
            res.ev("C18.ft.fib")
            walk = [path[0]]
            cur = path[0]
            for _ in range(len(path) + 2):
                nd = g.nodes[cur]
                if cls not in nd["flow_to_port"]:
                    break
                port = nd["flow_to_port"][cls]
                nh = nd["port_to_nexthop"].get(port)
                if nh is None or nd["flow_to_nexthop"].get(cls) != nh or nd["nexthop_to_port"].get(nh) != port or not g.has_edge(cur, nh):
                    walk.append(("broken", cur, port, nh))
                    break
                walk.append(nh)
                cur = nh
            if walk != path:
                res.bad("C18.ft.fib", "FatTree:fib-walk-%s-leaves-the-flow-path" % ("reverse" if cls >= 10000 else "forward"), "flow %s: walk %s path %s" % (fid, walk, path))
                return ("fib",)
    # do flows share a directed link?
    links = {}
    share = False
    for fid in flows:
        for e in zip(flows[fid].path, flows[fid].path[1:]):
            if e in links:
                share = True
            links[e] = fid
    res.nontrivial = share or len(flows) == 1
    if len(flows) > 1 and not share and k > 2:
        return tuple(sig)
    simulate(ft, flows, cfg, res)
    return tuple(sig)


def simulate(ft, flows, cfg, res):
    env = Environment()
    g = ft.topo
    log = []
    k = cfg["k"]
    dev = {}
    tag = "fat-tree(%s nodes)" % cfg["node"]
    used = set()
    for fid in flows:
        used.update(flows[fid].path)

    def mk():
        for v in used:
            nd = g.nodes[v]
            nports = len(nd["port_to_nexthop"])
            if cfg["node"] == "bare":
                ports = [Port(env, 8, None, False, "n%s.%d" % (v, i)) for i in range(nports)]
                d = FIBDemux(outs=ports, fib=nd["flow_to_port"])
                dev[v] = (d, ports, d)
            else:
                sw = FairPacketSwitch(env, nports, 8, 100, {0: 1}, "WFQ", "n%s" % v, flow2class=lambda f: 0)
                sw.demux.fib = nd["flow_to_port"]
                dev[v] = (sw, sw.ports, sw.demux)
        for v in used:
            nd = g.nodes[v]
            for port, nh in nd["port_to_nexthop"].items():
                if nh in dev:
                    dev[v][1][port].out = dev[nh][0]
                else:
                    dev[v][1][port].out = Rec("stray-at-%s" % nh, log)
        for fid, fl in flows.items():
            dev[fl.dst][2].ends[fid] = Rec("sink%d" % fid, log)
            if cfg["tcp"]:
                dev[fl.src][2].ends[fid + 10000] = Rec("acksink%d" % fid, log)
    pk = []

    def go():
        def drv():
            for r in range(2):
                for fid, fl in flows.items():
                    p = Packet(env.now, 1, len(pk), flow_id=fid)
                    pk.append((p, "sink%d" % fid))
                    dev[fl.src][0].put(p)
                    if cfg["tcp"]:
                        a = Packet(env.now, 1, len(pk), flow_id=fid + 10000)
                        pk.append((a, "acksink%d" % fid))
                        dev[fl.dst][0].put(a)
                yield env.timeout(1)
        env.process(drv())
        env.run(until=200)
    if not guarded(res, tag, mk):
        return
    if not guarded(res, tag, go):
        return
    for p, want in pk:
        res.ev("C18.ft.sim")
        got = [n for n, q in log if q is p]
        if got != [want]:
            res.bad("C18.ft.sim", "%s:%s" % (tag, "packet-not-delivered" if not got else "packet-at-a-wrong-sink"),
                    "packet of class %d delivered to %s, expected %s; flows %s" % (p.flow_id, got, want, [(f.src, f.dst, f.path) for f in flows.values()]))
            return
